#!/usr/bin/env python3
"""Confirm a candidate seeded change: in a scratch worktree of /repo HEAD
 (1) the demonstration passes without the patch,
 (2) the patch applies, (3) the demonstration fails with it,
 (4) the pinned test suite still passes (every stable_pass test).
Usage: verify_mutant.py <dir with patch.diff and demo.py> [--keep]"""
import json, os, shutil, subprocess, sys, tempfile
import xml.etree.ElementTree as ET

src = os.path.abspath(sys.argv[1])
wt = tempfile.mkdtemp(prefix='mv-', dir='/tmp')
os.rmdir(wt)
def run(cmd, **kw):
    return subprocess.run(cmd, shell=True, stdout=subprocess.PIPE, stderr=subprocess.STDOUT, **kw)
res = {}
try:
    r = run('git -C /repo worktree add -q --detach %s HEAD' % wt)
    assert r.returncode == 0, r.stdout
    os.makedirs(wt + '/MUTANT')
    for f in os.listdir(src):
        if os.path.isfile(os.path.join(src, f)):
            shutil.copy(os.path.join(src, f), wt + '/MUTANT/')
    env = dict(os.environ, PYTHONPATH=wt, PYTHONHASHSEED='0')
    r = run('/venv/bin/python MUTANT/demo.py', cwd=wt, env=env, timeout=600)
    res['demo_without_patch_rc'] = r.returncode
    r = run('git apply MUTANT/patch.diff', cwd=wt)
    res['patch_applies'] = r.returncode == 0
    if r.returncode != 0:
        res['apply_error'] = r.stdout.decode()[-500:]
    else:
        r = run('/venv/bin/python MUTANT/demo.py', cwd=wt, env=env, timeout=600)
        res['demo_with_patch_rc'] = r.returncode
        res['demo_output_tail'] = r.stdout.decode('utf-8', 'replace')[-600:]
        b = json.load(open('/root/.vp/BASELINE.json'))
        out = wt + '/junit.xml'
        r = run('/venv/bin/python -m pytest -q -p no:cacheprovider --timeout=900 --continue-on-collection-errors --junitxml=%s' % out, cwd=wt, env=dict(os.environ, PYTHONHASHSEED='0'))
        passed = set()
        for tc in ET.parse(out).getroot().iter('testcase'):
            if not list(tc):
                passed.add('%s::%s' % (tc.get('classname'), tc.get('name')))
        missing = [t for t in b['stable_pass'] if t not in passed]
        res['tests_missing'] = missing[:10]
        res['tests_ok'] = not missing
    res['confirmed'] = bool(res.get('demo_without_patch_rc') == 0 and res.get('patch_applies')
                            and res.get('demo_with_patch_rc', 0) != 0 and res.get('tests_ok'))
finally:
    run('git -C /repo worktree remove --force %s' % wt)
    shutil.rmtree(wt, ignore_errors=True)
print(json.dumps(res, indent=1))
sys.exit(0 if res.get('confirmed') else 1)
