"""Name pools shared by drivers, renderer and projection.

Pool names map one-to-one to fixed uuids so that TLC strings and HTTP uuids
correspond; anything outside the pools is kept verbatim.
"""
import uuid

NS = uuid.UUID('6e1f4c0a-0000-4000-8000-000000000000')


def _mk(prefix, n):
    return {('%s%d' % (prefix, i)): str(uuid.uuid5(NS, '%s%d' % (prefix, i)))
            for i in range(1, n + 1)}


PROVIDERS = _mk('p', 12)
CONSUMERS = _mk('c', 8)
AGGS = _mk('agg', 6)

NAME2UUID = {}
NAME2UUID.update(PROVIDERS)
NAME2UUID.update(CONSUMERS)
NAME2UUID.update(AGGS)
UUID2NAME = {v: k for k, v in NAME2UUID.items()}

STD_CLASSES = ["VCPU", "MEMORY_MB", "DISK_GB", "PCI_DEVICE", "SRIOV_NET_VF", "VGPU"]
STD_TRAITS = ["HW_CPU_X86_AVX", "HW_CPU_X86_AVX2", "STORAGE_DISK_SSD",
              "MISC_SHARES_VIA_AGGREGATE", "COMPUTE_VOLUME_MULTI_ATTACH"]
CUSTOM_CLASSES = ["CUSTOM_RC1", "CUSTOM_RC2", "CUSTOM_RC3", "CUSTOM_RC4"]
CUSTOM_TRAITS = ["CUSTOM_T1", "CUSTOM_T2", "CUSTOM_T3", "CUSTOM_T4"]
BOGUS_UPPER = ["NOSUCH", "NOSUCH_TOO"]
PREFIX_POOL = ["CUSTOM_", "CUSTOM_T", "CUSTOM_T_", "HW_", "HW_CPU_X86_AVX", "ZZZ"]
PROJECTS = ["proj1", "proj2", "proj3"]
USERS = ["user1", "user2"]
# "UNKNOWN" and "ALL" are legal type names that collide (up to case) with the alias of "no type" and a keyword of GET /usages
CTYPES = ["INSTANCE", "MIGRATION", "VOLUME", "UNKNOWN", "ALL"]

DEFAULT_IPROJ = '00000000-0000-0000-0000-000000000000'
DEFAULT_IUSER = '00000000-0000-0000-0000-000000000000'


def to_uuid(name):
    return NAME2UUID.get(name, name)


def to_name(u):
    return UUID2NAME.get(u, u)
