CONSTANTS
  P = {"p1", "p2"}
  K = {"VCPU", "CUSTOM_RC1", "CUSTOM_RC2"}
  C = {"c1"}
  T = {"CUSTOM_T1"}
  A = {"agg1"}
  INVS <- InvsOne
  AMTS = {1}
  GROUPS <- G_names
  MAXGEN = 3
  MAXDEPTH = 5
INIT InitTwoProviders
NEXT Next
VIEW View
CONSTRAINT Bounded
INVARIANT Inv_TypeOK
INVARIANT Inv_C08
INVARIANT Inv_C19
PROPERTY Step_C04
PROPERTY Step_C08
PROPERTY Step_C10
PROPERTY Step_C19
CHECK_DEADLOCK FALSE
