#!/usr/bin/env python3
"""Measure the checks against patches on a scratch worktree of /repo (never
/repo itself): run_patchset.py <worktree> [--checks C01,C02,...] <patch>...
For every patch: apply it to the worktree, run the quick checks with
PV_REPO=<worktree> (evidence and replays go to a scratch directory), undo it,
and report the checks that raised a VIOLATION or failed."""
import json, os, subprocess, sys, time, tempfile, shutil
ROOT = os.path.dirname(os.path.dirname(os.path.abspath(__file__)))
args = sys.argv[1:]
tree = args.pop(0)
checks = ['C%02d' % i for i in range(1, 21)]
if args and args[0] == '--checks':
    checks = args[1].split(','); args = args[2:]
def sh(cmd, **kw):
    return subprocess.run(cmd, shell=True, stdout=subprocess.PIPE, stderr=subprocess.STDOUT, **kw)
assert tree != '/repo' and os.path.isdir(tree)
assert sh('git -C %s status --porcelain -uno' % tree).stdout.strip() == b'', 'worktree not clean'
scratch = tempfile.mkdtemp(prefix='pv-patchset-')
env = dict(os.environ, PV_REPO=tree, PV_EVIDENCE_DIR=scratch + '/evidence', PV_REPLAY_DIR=scratch + '/replays', VERIF_SEED='1')
report = {}
try:
    for patch in args or ['']:
        if patch:
            r = sh('git -C %s apply %s' % (tree, os.path.abspath(patch)))
            if r.returncode != 0:
                print(patch, 'PATCH DOES NOT APPLY', r.stdout.decode()[-300:]); continue
        res = {}
        try:
            for c in checks:
                t = time.time()
                r = sh('./check %s --tier quick --no-model' % c, cwd=ROOT, env=env)
                o = r.stdout.decode('utf-8', 'replace')
                res[c] = {'rc': r.returncode, 'wall': round(time.time() - t),
                          'lines': [l[:300] for l in o.splitlines() if l.startswith(('VIOLATION', '  ', 'MACHINERY', 'MODEL-DRIFT'))][:6]}
        finally:
            if patch:
                sh('git -C %s checkout -- .' % tree)
        report[patch or 'clean'] = res
        alarms = {c: v for c, v in res.items() if v['rc'] != 0}
        print(os.path.basename(patch) or 'clean', 'ALARMS:' if alarms else 'no alarm', {c: v['rc'] for c, v in alarms.items()}, flush=True)
        for c, v in alarms.items():
            for l in v['lines'][:3]:
                print('     %s %s' % (c, l), flush=True)
finally:
    shutil.rmtree(scratch, ignore_errors=True)
json.dump(report, open('/tmp/pv_patchset_report.json', 'w'), indent=1)
