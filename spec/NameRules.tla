------------------------------- MODULE NameRules -------------------------------
(***************************************************************************)
(* C19, character level: which names the API may create for resource       *)
(* classes and traits, and how creating one is answered.                   *)
(*                                                                         *)
(* A name is a sequence of Unicode code points (TLC has no character       *)
(* access to strings).  The four creating operations are                   *)
(*   rc_post    POST /resource_classes {"name": n}          (1.2-)         *)
(*   rc_put     PUT  /resource_classes/{n}                  (1.7-)         *)
(*   rc_rename  PUT  /resource_classes/{old} {"name": n}    (1.2-1.6)      *)
(*   trait_put  PUT  /traits/{n}                            (1.6-)         *)
(* The stored state is the set of class names and the set of trait names.  *)
(***************************************************************************)
EXTENDS Naturals, Sequences, FiniteSets

Upper      == 65..90
Digit      == 48..57
Underscore == 95
NameChar   == Upper \cup Digit \cup {Underscore}
CustomPrefix == <<67, 85, 83, 84, 79, 77, 95>>          \* "CUSTOM_"
MaxLen == 255

LegalCustom(cp) ==
  /\ Len(cp) > Len(CustomPrefix)
  /\ Len(cp) <= MaxLen
  /\ SubSeq(cp, 1, Len(CustomPrefix)) = CustomPrefix
  /\ \A i \in (Len(CustomPrefix) + 1)..Len(cp) : cp[i] \in NameChar

Kinds == {"rc_post", "rc_put", "rc_rename", "trait_put"}
IsClassKind(k) == k \in {"rc_post", "rc_put", "rc_rename"}

\* The documented answer: a name outside the pattern is a 400; an existing
\* name is the idempotent 204 of the two PUT-to-create operations or a 409.
ExpectedStatus(kind, cp, existed) ==
  IF ~LegalCustom(cp) THEN 400
  ELSE IF existed THEN (CASE kind = "rc_post" -> 409 [] kind = "rc_rename" -> 409
                          [] kind = "rc_put" -> 204 [] kind = "trait_put" -> 204)
  ELSE (CASE kind = "rc_post" -> 201 [] kind = "rc_rename" -> 200
          [] kind = "rc_put" -> 201 [] kind = "trait_put" -> 201)

Creates(kind, cp, existed) == LegalCustom(cp) /\ ~existed

=============================================================================
