"""Binding self-test (run by setup.sh): the trace checker accepts a recorded
execution of the real code and rejects it as soon as one recorded field is
corrupted, one step is dropped, or one observed state component is altered.
A checker that accepted the corrupted traces would bind nothing."""
import copy
import random
import sys


def main():
    from pv.app import get_app
    from pv import trace, scenarios
    rec = trace.Recorder(get_app())
    rec.new_history()
    scenarios.run('reshape_moves_class', rec, random.Random(0))
    lines = rec.lines
    verdicts, _ = trace.validate(lines)
    bad = [i for i, v in verdicts.items() if v['diff'] or v['mon']]
    if bad:
        print('selftest: the unmodified trace is rejected at', bad[:5],
              [verdicts[i] for i in bad[:2]])
        return 1
    n_ok = len(lines)

    def first_write(op, status):
        for k, ln in enumerate(lines):
            if ln['req']['op'] == op and ln['resp']['status'] == status:
                return k
        raise AssertionError('scenario lacks %s %s' % (op, status))

    cases = []
    # (a) a mutated status
    k = first_write('alloc_put', 204)
    t = copy.deepcopy(lines)
    t[k]['resp']['status'] = 200
    cases.append(('status', t, t[k]['id'], 'status'))
    # (b) a forgotten generation bump in the observed post state
    k = first_write('inv_put_all', 200)
    t = copy.deepcopy(lines)
    u = t[k]['req']['u']
    t[k]['post']['rp'][u]['gen'] -= 1
    cases.append(('generation', t, t[k]['id'], 'rpgen'))
    # (c) a dropped step: the chain post[i] = pre[i+1] breaks
    k = first_write('alloc_put', 204)
    t = copy.deepcopy(lines)
    del t[k]
    cases.append(('dropped step', t, t[k]['id'], 'chain'))
    # (d) a corrupted body field
    k = first_write('rp_usages', 200)
    t = copy.deepcopy(lines)
    body = t[k]['resp']['body']
    key = sorted(body['usages'])[0] if body['usages'] else None
    if key:
        body['usages'][key] += 1
        cases.append(('body', t, t[k]['id'], 'body'))
    # (e) an allocation row that survives a rejected reshape
    k = first_write('reshape', 409)
    t = copy.deepcopy(lines)
    c = sorted(t[k]['post']['alloc'])[0]
    p = sorted(t[k]['post']['alloc'][c])[0]
    kk = sorted(t[k]['post']['alloc'][c][p])[0]
    t[k]['post']['alloc'][c][p][kk] += 1
    cases.append(('rejected write with effect', t, t[k]['id'], 'alloc'))
    rc = 0
    for name, t, lid, want in cases:
        v, _ = trace.validate(t)
        got = v[lid]
        hit = want in got['diff']
        if name == 'rejected write with effect':
            hit = hit and 'C04_Step' in got['mon']
        print('selftest: corrupted %-28s -> line %d rejected: %s %s'
              % (name, lid, hit, got['diff'] + got['mon']))
        if not hit:
            rc = 1
    print('selftest: %d lines accepted unmodified; %d corruptions %s'
          % (n_ok, len(cases), 'all rejected' if rc == 0 else 'NOT all rejected'))
    return rc


if __name__ == '__main__':
    sys.exit(main())
