
CONSTANTS
  P = {"p1", "p2"}
  K = {"VCPU", "DISK_GB"}
  C = {"c1", "c2"}
  T = {"CUSTOM_T1"}
  A = {"agg1"}
  INVS <- InvsThree
  AMTS = {1, 2, 3}
  GROUPS <- G_alloc
  MAXGEN = 6
  MAXDEPTH = 3
INIT InitWithInventories
NEXT Next
VIEW View
CONSTRAINT Bounded
INVARIANT Inv_TypeOK
INVARIANT Inv_C08
INVARIANT Inv_C12
INVARIANT Inv_C11
PROPERTY Step_C01
PROPERTY Step_C04
PROPERTY Step_C08
PROPERTY Step_C10
PROPERTY Step_C12
CHECK_DEADLOCK FALSE
