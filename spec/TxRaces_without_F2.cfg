SPECIFICATION RSpec
CONSTANT FIXES <- Without_F2
CONSTANT ENV <- NoEnv
INVARIANT Inv_C05
INVARIANT Inv_C06
INVARIANT Inv_C07
INVARIANT Inv_C12
INVARIANT Inv_Struct
CHECK_DEADLOCK FALSE
