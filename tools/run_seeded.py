#!/usr/bin/env python3
"""Apply each seeded change under /verif/seeded/<id>/ to /repo, run the named
quick checks, undo it straight afterwards, and report which checks raised a
VIOLATION.  Usage: run_seeded.py [--checks C01,C11] [ids...]"""
import json, os, subprocess, sys, time
ROOT = os.path.dirname(os.path.dirname(os.path.abspath(__file__)))
args = sys.argv[1:]
checks = None
if args and args[0] == '--checks':
    checks = args[1].split(','); args = args[2:]
ids = args or sorted(os.listdir(os.path.join(ROOT, 'seeded')))
def sh(cmd, **kw):
    return subprocess.run(cmd, shell=True, stdout=subprocess.PIPE, stderr=subprocess.STDOUT, **kw)
assert sh('git -C /repo status --porcelain').stdout.strip() == b'', '/repo not clean'
out = {}
for mid in ids:
    d = os.path.join(ROOT, 'seeded', mid)
    meta = {}
    if os.path.exists(d + '/meta.json'):
        meta = json.load(open(d + '/meta.json'))
    todo = checks or meta.get('checks_to_run') or [mid.split('-')[0], 'C11']
    r = sh('git -C /repo apply %s/patch.diff' % d)
    if r.returncode != 0:
        print(mid, 'PATCH DOES NOT APPLY', r.stdout.decode()[-300:]); continue
    res = {}
    try:
        for c in todo:
            t = time.time()
            r = sh('./check %s --tier quick --no-model' % c, cwd=ROOT, env=dict(os.environ, VERIF_SEED='1'))
            o = r.stdout.decode('utf-8', 'replace')
            res[c] = {'rc': r.returncode, 'violations': o.count('VIOLATION property='),
                      'first': next((l for l in o.splitlines() if l.startswith('  ')), '')[:200],
                      'wall': round(time.time() - t)}
    finally:
        sh('git -C /repo checkout -- .')
    out[mid] = res
    print(mid, {c: (v['rc'], v['violations']) for c, v in res.items()})
    for c, v in res.items():
        if v['rc'] == 1:
            print('    %s: %s' % (c, v['first']))
        if v['rc'] == 2:
            print('    %s: MACHINERY FAILURE' % c)
json.dump(out, open(os.path.join(ROOT, 'seeded', 'last_run.json'), 'w'), indent=1)
