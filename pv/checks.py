"""Check definitions and the common run / verdict / evidence logic."""
import json
import os
import random
import time

from pv import findings
from pv import tlc

ROOT = os.path.dirname(os.path.dirname(os.path.abspath(__file__)))
# experiments (tools/run_patchset.py) write elsewhere; registered commands never set these
EVID = os.environ.get('PV_EVIDENCE_DIR') or os.path.join(ROOT, 'evidence')
REPLAYS = os.environ.get('PV_REPLAY_DIR') or os.path.join(ROOT, 'replays')


class Machinery(Exception):
    pass


# ---------------------------------------------------------------------------
# sequential properties: TLC model(s) + trace validation of histories

W_ALLOC = {'alloc_put': 25, 'alloc_post': 16, 'reshape': 12, 'inv_put': 8,
           'inv_put_all': 10, 'alloc_del': 4, 'rp_create': 6}
W_FOREST = {'_noinv': 1, 'rp_create': 30, 'rp_update': 40, 'rp_delete': 12, 'rp_get': 6,
            'alloc_put': 2, 'alloc_post': 0, 'reshape': 0, 'inv_put_all': 2,
            'inv_post': 1, 'inv_put': 0, 'usages': 0, 'traits_list': 0,
            'rc_list': 0, 'rc_put': 0, 'rc_post': 0, 'rc_del': 0,
            'trait_put': 0, 'trait_del': 0, 'trait_get': 0, 'rc_get': 0}
W_NAMES = {'_noinv': 1, 'rc_post': 20, 'rc_put': 25, 'rc_del': 15, 'trait_put': 15,
           'trait_del': 12, 'trait_get': 3, 'rc_get': 3, 'rc_list': 3,
           'traits_list': 5, 'inv_post': 6, 'rp_traits_put': 8,
           'alloc_put': 1, 'alloc_post': 0, 'reshape': 1, 'rp_update': 1}
W_DELETE = {'rp_delete': 14, 'inv_del': 12, 'inv_del_all': 8, 'rc_del': 8,
            'trait_del': 8, 'alloc_del': 8, 'inv_put_all': 12, 'reshape': 10,
            'rc_post': 5, 'trait_put': 5, 'rp_traits_put': 8, 'agg_put': 5}
W_CONS = {'alloc_put': 30, 'alloc_post': 18, 'reshape': 10, 'alloc_del': 12,
          'alloc_get': 8, 'usages': 4, 'rp_update': 1, 'rc_put': 0}

SEQ = {
    'C01': dict(models=['MC_alloc'], weights=W_ALLOC,
                scenarios=['reshape_moves_class', 'drop_class_in_use', 'joint_overflow', 'reshape_tightens_units', 'list_form_duplicates'],
                quick=(36, 45), thorough=(900, 60)),
    'C04': dict(models=['MC_alloc'], weights=W_ALLOC,
                scenarios=['f9_unknown_provider_new_consumer',
                           'f7_empty_write_unknown_consumer',
                           'reshape_moves_class', 'drop_class_in_use'],
                quick=(36, 45), thorough=(900, 60)),
    'C08': dict(models=['MC_forest', 'MC_names'], weights=W_DELETE,
                scenarios=['drop_class_in_use', 'reshape_moves_class',
                           'subtree_moves'],
                quick=(36, 45), thorough=(900, 60)),
    'C09': dict(models=['MC_forest'], weights=W_FOREST, nprov=8,
                scenarios=['subtree_moves', 'parent_spellings'],
                quick=(36, 45), thorough=(900, 80)),
    'C10': dict(models=['MC_alloc', 'MC_assoc'], weights={}, read_after_write=True,
                scenarios=['reshape_moves_class', 'consumer_lifecycle',
                           'drop_class_in_use'],
                quick=(36, 35), thorough=(900, 50)),
    'C11': dict(models=['MC_forest', 'MC_alloc'], weights={}, read_after_write=True,
                scenarios=['reshape_moves_class', 'consumer_lifecycle',
                           'drop_class_in_use', 'names_lifecycle',
                           'subtree_moves', 'parent_spellings', 'ratio_nudges', 'joint_overflow', 'usage_views', 'reshape_tightens_units', 'list_form_duplicates', 'f7_empty_write_unknown_consumer',
                           'f9_unknown_provider_new_consumer'],
                replay=dict(quick=(4, 30, 2), thorough=(40, 60, 12)), gabbi=True,
                quick=(48, 35), thorough=(1500, 50)),
    'C12': dict(models=['MC_alloc'], weights=W_CONS, configs=True,
                scenarios=['consumer_lifecycle',
                           'f7_empty_write_unknown_consumer',
                           'f9_unknown_provider_new_consumer'],
                quick=(36, 45), thorough=(900, 60)),
    'C19': dict(models=['MC_names', 'MC_NameRules:MC_NameRules', 'Startup:Startup'], weights=W_NAMES,
                scenarios=['names_lifecycle', 'drop_class_in_use', 'sync_histories', 'sync_histories',
                           'sync_histories'],
                quick=(36, 45), thorough=(600, 60)),
}

CONCUR = {
    'C05': dict(quick=dict(limit=60, limit3=40), thorough=dict(limit=2000, limit3=3000)),
    'C06': dict(quick=dict(limit=60, limit3=40), thorough=dict(limit=4000, limit3=3000)),
    'C07': dict(quick=dict(limit=60, limit3=40), thorough=dict(limit=4000, limit3=3000)),
}
CONCUR_MON = {
    'C05': ('C05_Commits', 'C05_AtMostOne', 'ErrorJustified:prov', 'Escaped'),
    'C06': ('C06_Commits', 'C06_AtMostOne', 'ErrorJustified:cons', 'Escaped'),
    'C07': ('C07_Serializable', 'FinalInvariants', 'Escaped'),
    'C10': ('C10_Monotone',),
    'C08': ('C08_FinalRefIntegrity', 'Escaped'),
    'C04': ('C04_ErrorsNoEffect',),
    'C09': ('C09_FinalForest',),
    'C12': ('C12_FinalConsumers',),
    'C11': ('C11_FinalViewsAgree', 'Escaped'),
    'C19': ('C19_FinalIds',),
}

FAULT = {
    'C17': dict(mode='fault', quick=dict(kinds=['deadlock', 'deadlock_rb', 'duplicate', 'generic', 'conn']),
                thorough=dict(kinds=['deadlock', 'deadlock_rb', 'duplicate', 'generic', 'conn'], pairs=250)),
    'C18': dict(mode='crash', quick=dict(kinds=['crash']), thorough=dict(kinds=['crash'])),
}

CAND = {
    'C02': dict(quick=dict(states=60, nq=20, claims=2), thorough=dict(states=1200, nq=30, claims=6)),
    'C03': dict(quick=dict(states=60, nq=25), thorough=dict(states=1500, nq=40)),
    'C13': dict(quick=dict(states=48, nq=40), thorough=dict(states=800, nq=80)),
    'C20': dict(quick=dict(states=36, nq=5, maxlimit=5, reps=1), thorough=dict(states=400, nq=8, maxlimit=12, reps=3)),
}
CAND_MON = {
    'C02': ('C02_',),
    'C03': ('C03_',),
    'C13': ('C13_',),
    'C20': ('C20_',),
}

LEVEL = {p: 'model_checking' for p in list(SEQ) + list(CONCUR) + list(CAND)}
LEVEL.update({p: 'fault_enumeration' for p in FAULT})
FUZZ = {'C15': dict(quick=dict(n=19200), thorough=dict(n=300000))}
SURFACE = ('C14', 'C16')
LEVEL.update({p: 'exploration' for p in SURFACE})
LEVEL.update({p: 'exploration' for p in FUZZ})

RULES = {
    'C01': 'distinct (allocation-writing request, outcome, inventories, allocations before) whose outcome (204/409) is decided by the inventory / unit / capacity checks',
    'C04': 'distinct rejected write requests (request, status, code)',
    'C08': 'distinct deletion / replacement requests with the set of consumers holding allocations before them',
    'C09': 'distinct (provider create/update/delete request, status, parent relation before it)',
    'C10': 'distinct successful write requests (each followed by the reads that show its generation)',
    'C11': 'distinct (request, status) pairs over all routes',
    'C12': 'distinct (allocation write / delete, status, set of existing consumers before it)',
    'C19': 'distinct (class / trait request, status, custom classes and traits before it)',
}


def run_model(name, tier):
    module = 'MC_API'
    if ':' in name:                 # "Module:cfg" for models outside MC_API.tla
        module, name = name.split(':')
    cfg = name + ('_deep' if tier == 'thorough' and
                  os.path.exists(os.path.join(tlc.SPEC, name + '_deep.cfg')) else '') + '.cfg'
    rc, out, wall = tlc.run(module, cfg, workers=16, timeout=5400,
                            jvm=['-Xmx8g'])
    gen, dist = tlc.stats(out)
    if 'Model checking completed. No error has been found' not in out:
        tail = out[-2500:]
        raise Machinery('TLC model %s did not complete cleanly (rc %s):\n%s'
                        % (cfg, rc, tail))
    return {'model': cfg, 'transitions': gen, 'states': dist, 'wall_s': round(wall, 1)}


def seq_histories(prop, tier, seed):
    c = SEQ[prop]
    n, length = c[tier]
    rnd = random.Random(seed * 7919 + 13)
    hs = []
    for name in c.get('scenarios', []):
        hs.append({'scenario': name, 'seed': rnd.randrange(1 << 30)})
    for i in range(n):
        h = {'seed': rnd.randrange(1 << 30), 'length': length,
             'nprov': c.get('nprov', rnd.choice([3, 5, 5, 8])), 'ncons': 4}
        if c.get('configs') and i % 3 == 0:
            h['conf'] = {('placement', 'incomplete_consumer_project_id'): 'the-incomplete-project',
                         ('placement', 'incomplete_consumer_user_id'): 'the-incomplete-user'}
            h['env'] = {'iproj': 'the-incomplete-project', 'iuser': 'the-incomplete-user'}
        hs.append(h)
    return hs


def run_seq(prop, tier, seed, model=True):
    from pv import seqengine
    c = SEQ[prop]
    t0 = time.time()
    models = []
    if model:
        for m in c['models']:
            models.append(run_model(m, tier))
    hs = seq_histories(prop, tier, seed)
    jobs = seqengine.split_jobs(hs, 12 if tier == 'quick' else 14,
                                weights=c.get('weights'),
                                read_after_write=c.get('read_after_write'))
    replay_async = None
    replay_pool = None
    if c.get('replay'):
        # spec -> code: behaviours simulated by TLC from MC_API.tla replayed into the real code
        import multiprocessing as mp
        from pv import replay as replaymod
        num, depth, nproc = c['replay'][tier]
        replay_pool = mp.get_context('spawn').Pool(nproc)
        replay_async = replay_pool.map_async(
            replaymod.worker, [{'num': num, 'depth': depth, 'seed': seed * 97 + w + 1} for w in range(nproc)], chunksize=1)
    try:
        results = seqengine.run_jobs(jobs)
    except tlc.TLCError as ex:
        raise Machinery(str(ex))
    replay_results = []
    if replay_async is not None:
        try:
            replay_results = replay_async.get(timeout=7200)
        except tlc.TLCError as ex:
            raise Machinery(str(ex))
        finally:
            replay_pool.close()
    gabbi_cov = {}
    if c.get('gabbi') or tier == 'thorough':
        # the repository's functional test corpus as traces (pv/gabbitrace.py)
        import multiprocessing as mp
        from pv import gabbitrace
        files = sorted(f for f in os.listdir(gabbitrace.GABBITS) if f.endswith('.yaml'))
        nw = 12
        try:
            with mp.get_context('spawn').Pool(nw) as pool:
                gres = pool.map(gabbitrace.worker, [{'files': files[w::nw]} for w in range(nw)], chunksize=1)
        except tlc.TLCError as ex:
            raise Machinery(str(ex))
        gabbi_cov = {'gabbi_files_run': len(files),
                     'gabbi_exchanges_judged': sum(r['n'] for r in gres),
                     'gabbi_exchanges_inside_the_alphabet_of_Apply': sum(r['modelled'] for r in gres)}
        if gabbi_cov['gabbi_exchanges_inside_the_alphabet_of_Apply'] < 100:
            raise Machinery('the gabbi corpus produced only %d modelled exchanges' % gabbi_cov['gabbi_exchanges_inside_the_alphabet_of_Apply'])
        results = list(results) + gres
    nlines = sum(r['n'] for r in results)
    nhist = sum(r['histories'] for r in results)
    if nlines == 0:
        raise Machinery('no trace lines were validated')
    keys = set()
    ops = {}
    for r in results:
        keys.update(r['keys'].get(prop, []))
        for k, v in r['ops'].items():
            ops[k] = ops.get(k, 0) + v
    violations = []
    known = []
    for r in list(results) + [dict(rr, keys={}) for rr in replay_results]:
        for bad in r['bad']:
            why = seqengine.attribute(prop, bad)
            if not why:
                continue
            sig = {'engine': 'seq', 'op': bad['line']['req']['op'],
                   'status': bad['line']['resp']['status'],
                   'exp_status': bad['verdict']['exp_status'],
                   'diff': ','.join(bad['verdict']['diff']),
                   'mon': ','.join(bad['verdict']['mon'])}
            f = findings.lookup(prop, sig)
            if f:
                known.append((f, why))
            else:
                violations.append((bad, why, sig))
    extra_cov = {}
    if replay_results:
        extra_cov['tlc_simulated_behaviours_replayed_into_impl'] = sum(r['behaviours'] for r in replay_results)
        extra_cov['tlc_simulated_steps_replayed'] = sum(r['steps'] for r in replay_results)
        extra_cov['behaviours_cut_because_a_generation_moved_further_than_in_the_specification'] = sum(r.get('cut_by_generation_magnitude', 0) for r in replay_results)
        if sum(r['steps'] for r in replay_results) == 0:
            raise Machinery('no simulated behaviour was replayed')
        nhist += sum(r['behaviours'] for r in replay_results)
    if prop == 'C04':
        # a request rejected because it lost a race must not have committed anything either
        n2 = 0
        for ck in ('C05', 'C06', 'MIX'):
            v2, k2, n = concur_supplement('C04', ck, tier, seed)
            violations.extend(v2)
            known.extend(k2)
            n2 += n
        extra_cov['interleavings_checked_for_rejected_requests_without_effect'] = n2
    if prop == 'C09':
        n3 = 0
        # racing moves / creations / deletions, and removals racing with new children
        for ck in ('C09', 'C08'):
            v2, k2, n2 = concur_supplement('C09', ck, tier, seed)
            violations.extend(v2)
            known.extend(k2)
            n3 += n2
        extra_cov['interleavings_of_hierarchy_changes'] = n3
    if prop == 'C08':
        # removals racing with requests that start to use what is removed
        v2, k2, n2 = concur_supplement('C08', 'C08', tier, seed)
        violations.extend(v2)
        known.extend(k2)
        extra_cov['interleavings_of_removals_with_new_uses'] = n2
        # allocation rows and the consumer record under racing writes / DELETE of one consumer
        v2, k2, n2 = concur_supplement('C08', 'C06', tier, seed)
        violations.extend(v2)
        known.extend(k2)
        extra_cov['interleavings_of_writes_to_one_consumer'] = n2
    if prop == 'C12':
        # a consumer exists exactly while it holds allocations: also after racing writes / DELETE of one consumer
        n3 = 0
        for ck in ('C06', 'MIX'):
            v2, k2, n2 = concur_supplement('C12', ck, tier, seed)
            violations.extend(v2)
            known.extend(k2)
            n3 += n2
        extra_cov['interleavings_of_writes_to_one_consumer'] = n3
    if prop == 'C19':
        # character level: crafted and mutated names sent to the four creating operations (NameRules.tla)
        from pv import nameprobe
        try:
            nbad, nn, name_hist, nobs = nameprobe.run('C19', tier, seed)
        except tlc.TLCError as ex:
            raise Machinery(str(ex))
        if nn == 0:
            raise Machinery('no name probe was judged')
        for b, tags in nbad:
            sig = {'engine': 'names', 'op': b['kind'], 'status': b['status'], 'monitors': ','.join(tags)}
            why = '%s for %s of the name %r: answered %d, stored %r' % (
                ','.join(tags), b['kind'], b['name'][:80], b['status'], [x[:80] for x in b['created']])
            f = findings.lookup(prop, sig)
            if f:
                known.append((f, why))
            else:
                violations.append((b, why, sig))
        extra_cov['name_probes_judged'] = nn
        extra_cov['name_probe_histogram'] = dict(sorted(name_hist.items()))
        extra_cov['name_probe_observations_outside_C19'] = nobs
    if prop == 'C11':
        # "the per-consumer and per-provider views of allocations agree" also after racing writes
        n3 = 0
        for ck in ('C07', 'C06'):
            v2, k2, n2 = concur_supplement('C11', ck, tier, seed)
            violations.extend(v2)
            known.extend(k2)
            n3 += n2
        extra_cov['interleavings_checked_for_agreeing_views'] = n3
    if prop == 'C19':
        # racing creations: identifiers stay unique, existing names are never duplicated,
        # the outcome is that of some serial order
        v2, k2, n2 = concur_supplement('C19', 'C19', tier, seed)
        violations.extend(v2)
        known.extend(k2)
        extra_cov['interleavings_of_racing_creations'] = n2
        # "after start-up ...": also after the start-up that follows a failed one in the same process
        import multiprocessing as mp
        from pv import faults
        ctx = mp.get_context('spawn')
        try:
            with ctx.Pool(1) as pool:
                nitems, _single = pool.apply(faults.corpus_for_model)
                fres = [pool.apply(faults.worker, ({'mode': 'fault', 'indices': list(range(nitems)), 'only_ops': ['sync'],
                                                    'kinds': ['generic', 'conn', 'deadlock', 'deadlock_rb'],
                                                    'pairs': 0 if tier == 'quick' else 40},))]
        except tlc.TLCError as ex:
            raise Machinery(str(ex))
        for r in fres:
            for bad in r['bad']:
                mons = [m for m in bad['monitors'] if m.startswith('C19_')]
                if not mons:
                    continue
                sig = {'engine': 'fault', 'op': bad['req']['op'], 'kind': bad['fault']['kind'],
                       'monitors': ','.join(mons), 'status': bad['status']}
                why = '%s: %s with %s at statement %d (%s) answered %s' % (
                    ','.join(mons), bad['label'], bad['fault']['kind'], bad['fault']['k'], bad['fault']['at'], bad['status'])
                f = findings.lookup(prop, sig)
                if f:
                    known.append((f, why))
                else:
                    violations.append((bad, why, sig))
        extra_cov['start_ups_with_an_injected_database_error'] = sum(r['n'] for r in fres)
    if prop == 'C10':
        # "requests answered with an error change no generation", also when a database error made it fail
        import multiprocessing as mp
        from pv import faults
        ctx = mp.get_context('spawn')
        with ctx.Pool(1) as pool:
            nitems, _single = pool.apply(faults.corpus_for_model)
        fjobs = [{'mode': 'fault', 'indices': list(range(w, nitems, 12)), 'kinds': ['generic'], 'pairs': 0}
                 for w in range(12) if list(range(w, nitems, 12))]
        try:
            with ctx.Pool(len(fjobs)) as pool:
                fres = pool.map(faults.worker, fjobs, chunksize=1)
        except tlc.TLCError as ex:
            raise Machinery(str(ex))
        for r in fres:
            for bad in r['bad']:
                mons = [m for m in bad['monitors'] if m.startswith('C10_')]
                if not mons:
                    continue
                sig = {'engine': 'fault', 'op': bad['req']['op'], 'kind': bad['fault']['kind'],
                       'monitors': ','.join(mons), 'status': bad['status']}
                why = '%s: %s with %s at statement %d (%s) answered %s' % (
                    ','.join(mons), bad['label'], bad['fault']['kind'], bad['fault']['k'], bad['fault']['at'], bad['status'])
                f = findings.lookup(prop, sig)
                if f:
                    known.append((f, why))
                else:
                    violations.append((bad, why, sig))
        extra_cov['requests_failed_by_an_injected_database_error'] = sum(r['n'] for r in fres)
        # generations never decrease: also on every commit of racing requests
        n2 = 0
        for ck in ('C06', 'C05'):
            v2, k2, n = concur_supplement('C10', ck, tier, seed)
            violations.extend(v2)
            known.extend(k2)
            n2 += n
        extra_cov['interleavings_checked_for_monotone_generations'] = n2
    cov = {
        'states': sum(m['states'] for m in models),
        'transitions': sum(m['transitions'] for m in models),
        'models': models,
        'traces_validated_against_impl': nhist,
        'trace_steps_validated': nlines,
        'evaluations': nlines,
        'distinct_nontrivial': len(keys),
        'rule': RULES[prop],
        'samples': results[0]['sample'] + [
            {'scenario': s} for s in c.get('scenarios', [])][:3],
        'op_status_histogram': dict(sorted(ops.items())),
        'exhaustive': False,
    }
    cov.update(extra_cov)
    cov.update(gabbi_cov)
    if not model:
        cov.pop('states')
        cov.pop('transitions')
    return finish(prop, tier, seed, cov, violations, known, t0, [
        'TLC explores the specification exhaustively only within the small constants of the listed MC_*.cfg models',
        'the implementation is observed through the WSGI interface and full table dumps on SQLite (in-process, noauth2, caller with admin+service roles)',
        'allocation ratios are dyadic rationals and all products stay below 2^31 (TLC integers)',
        'names are drawn from the pools of pv/names.py'])


# ---------------------------------------------------------------------------

def write_replay(prop, seed, n, bad, why, sig):
    os.makedirs(REPLAYS, exist_ok=True)
    path = os.path.join(REPLAYS, '%s-seed%d-%d.json' % (prop, seed, n))
    doc = {'property': prop, 'why': why, 'signature': sig,
           'engine': sig.get('engine')}
    doc.update({k: v for k, v in bad.items()})
    with open(path, 'w') as f:
        json.dump(doc, f, indent=1, sort_keys=True, default=str)
    return path


def finish(prop, tier, seed, cov, violations, known, t0, assumptions):
    os.makedirs(EVID, exist_ok=True)
    seen = set()
    for f, why in known:
        if f['id'] in seen:
            continue
        seen.add(f['id'])
        print('KNOWN-FINDING: property=%s %s: %s' % (prop, f['id'], f['what']))
    paths = []
    for i, (bad, why, sig) in enumerate(violations[:5]):
        p = write_replay(prop, seed, i, bad, why, sig)
        paths.append(p)
        print('VIOLATION property=%s replay=%s' % (prop, p))
        print('  ' + why)
    if len(violations) > 5:
        import re as _re
        groups = {}
        for bad, why, sig in violations:
            g = _re.sub(r'statement \d+', 'statement N', why)
            g = _re.sub(r'schedule [A-C]+', 'schedule S', g)
            groups[g] = groups.get(g, 0) + 1
        print('  all %d violations by kind:' % len(violations))
        for g, n in sorted(groups.items(), key=lambda x: -x[1])[:40]:
            print('   %4d  %s' % (n, g[:300]))
    cov['known_findings_seen'] = sorted(seen)
    ev = {'property_id': prop, 'tier': tier, 'seed': seed,
          'level': LEVEL[prop], 'coverage': cov, 'assumptions': assumptions,
          'wall_s': round(time.time() - t0, 1), 'violations': len(violations)}
    with open(os.path.join(EVID, prop + '.json'), 'w') as f:
        json.dump(ev, f, indent=1, sort_keys=True, default=str)
    print('%s %s: %d violation(s), %d known finding(s); %s' % (
        prop, tier, len(violations), len(seen),
        ', '.join('%s=%s' % (k, cov[k]) for k in
                  ('states', 'transitions', 'traces_validated_against_impl',
                   'evaluations', 'distinct_nontrivial') if k in cov)))
    return 1 if violations else 0


def concur_reasons(prop, bad):
    """Which of the failing monitors of a judged schedule concern `prop`."""
    mons = set(bad['monitors'])
    if any(st >= 500 for st in bad['statuses']):
        mons.add('Escaped')
    if 'ErrorJustified' in mons:
        # attribute an unjustified error status to the generation kind carried
        for r, st in zip(bad['reqs'], bad['statuses']):
            if st < 400:
                continue
            if r['op'] in ('inv_put', 'inv_put_all', 'rp_traits_put', 'reshape') or \
                    (r['op'] == 'agg_put' and r['v'] >= 19):
                mons.add('ErrorJustified:prov')
            if r['op'] in ('alloc_put', 'alloc_post', 'reshape') and r['v'] >= 28:
                mons.add('ErrorJustified:cons')
    return sorted(m for m in mons if m in CONCUR_MON[prop])


def concur_signature(prop, bad, reasons):
    ops = sorted(r['op'] for r in bad['reqs'])
    tags = []
    for r, st in zip(bad['reqs'], bad['statuses']):
        ents = [r] if r['op'] == 'alloc_put' else r.get('entries', [])
        for e in ents:
            if st < 300 and e.get('cgen') == 0 and e['c'] not in bad['db0']['cons']:
                tags.append('success-with-guessed-generation-0-for-absent-consumer')
    return {'engine': 'concur', 'ops': '|'.join(ops), 'monitors': ','.join(reasons),
            'tags': ','.join(sorted(set(tags)))}


def concur_supplement(prop, corpus_kind, tier, seed):
    """Run the races of `corpus_kind` with a small schedule budget and return
    the violations of `prop`'s monitors on them."""
    import multiprocessing as mp
    from pv import concur
    ctx = mp.get_context('spawn')
    with ctx.Pool(1) as pool:
        db0, corp = pool.apply(concur.corpus_with_state, (corpus_kind, tier, seed))
    nw = 12
    jobs = []
    for w in range(nw):
        idx = list(range(w, len(corp), nw))
        if idx:
            jobs.append({'kind': corpus_kind, 'tier': tier, 'seed': seed * 101 + w,
                         'corpus_seed': seed, 'indices': idx,
                         'limit': 25 if tier == 'quick' else 400, 'limit3': 15 if tier == 'quick' else 200})
    try:
        with ctx.Pool(len(jobs)) as pool:
            results = pool.map(concur.worker, jobs, chunksize=1)
    except tlc.TLCError as ex:
        raise Machinery(str(ex))
    violations, known = [], []
    for r in results:
        for bad in r['bad']:
            reasons = concur_reasons(prop, bad)
            if not reasons:
                continue
            sig = concur_signature(prop, bad, reasons)
            why = '%s under schedule %s of %s: statuses %s' % (
                ','.join(reasons), bad['schedule'], bad['label'], bad['statuses'])
            f = findings.lookup(prop, sig)
            if f:
                known.append((f, why))
            else:
                violations.append((bad, why, sig))
    return violations, known, sum(r['n'] for r in results)


def run_concur(prop, tier, seed, model=True):
    import multiprocessing as mp
    from pv import concur
    t0 = time.time()
    ctx = mp.get_context('spawn')
    with ctx.Pool(1) as pool:
        db0, corp = pool.apply(concur.corpus_with_state, (prop, tier, seed))
    ncorp = len(corp)
    nw = 12 if tier == 'quick' else 14
    lim = CONCUR[prop][tier]
    jobs = []
    for w in range(nw):
        idx = list(range(w, ncorp, nw))
        if idx:
            jobs.append({'kind': prop, 'tier': tier, 'seed': seed * 101 + w,
                         'corpus_seed': seed, 'indices': idx,
                         'limit': lim['limit'], 'limit3': lim['limit3']})
    try:
        with ctx.Pool(len(jobs)) as pool:
            results = pool.map(concur.worker, jobs, chunksize=1)
    except tlc.TLCError as ex:
        raise Machinery(str(ex))
    n = sum(r['n'] for r in results)
    if n == 0:
        raise Machinery('no schedule was executed')
    violations, known = [], []
    outcomes = {}
    observed = {}
    complete_idx = set()
    for r in results:
        observed.update(r['observed'])
        complete_idx.update(r['complete_idx'])
        for k, v in r['outcomes'].items():
            outcomes[k] = outcomes.get(k, 0) + v
        for bad in r['bad']:
            reasons = concur_reasons(prop, bad)
            if not reasons:
                continue
            sig = concur_signature(prop, bad, reasons)
            f = findings.lookup(prop, sig)
            why = '%s under schedule %s of %s: statuses %s' % (
                ','.join(reasons), bad['schedule'], bad['label'], bad['statuses'])
            if f:
                known.append((f, why))
            else:
                violations.append((bad, why, sig))
    # the model of the transaction structure over the same races, told what
    # the implementation was seen to do
    models = []
    tx_extra = {}
    if model:
        races = []
        for i, (label, areqs) in enumerate(corp):
            races.append({'id': i + 1, 'db0': db0, 'reqs': areqs,
                          'known': concur.race_known_tag(areqs, db0),
                          'observed': [{'statuses': o['statuses'], 'final': o['final'],
                                        'commits': o['commits']}
                                       for o in observed.get(i, [])]})
        ok, st, report, tail = concur.run_tx_model(races)
        if not ok:
            raise Machinery('TLC found the properties violated on (or could not evaluate) spec/Tx.tla itself:\n' + tail)
        st['model'] = 'TxRaces.cfg (Tx.tla over %d races)' % len(races)
        models.append(st)
        unexplained = 0
        only_model = 0
        drift = []
        for i, (label, areqs) in enumerate(corp):
            obs = observed.get(i, [])
            terms = report.get(i + 1, [])
            hit = set()
            for h, sts in terms:
                hit.update(h)
            for j, o in enumerate(obs):
                if (j + 1) in hit:
                    continue
                unexplained += 1
                tagged = races[i]['known']
                bad = {'label': label, 'schedule': o['schedule'], 'statuses': o['statuses'],
                       'reqs': areqs, 'db0': db0, 'final': o['final'],
                       'monitors': ['TxConformance'],
                       'model_outcomes': sorted(set(tuple(x[1]) for x in terms))}
                sig = {'engine': 'concur', 'ops': '|'.join(sorted(r['op'] for r in areqs)),
                       'monitors': 'TxConformance', 'tags': 'race-tagged-' + tagged if tagged else ''}
                why = ('outcome %s (schedule %s) of race %s is not an outcome of any interleaving of spec/Tx.tla (model outcomes %s)'
                       % (o['statuses'], o['schedule'], label, bad['model_outcomes']))
                # The property itself is judged on this execution by TraceSerial.tla (oracle: Apply alone).
                # That the transaction-structure model no longer explains the code is not a violation
                # of the property: it voids the model-level result, and is reported as such.
                drift.append(why)
            if i in complete_idx:
                only_model += sum(1 for h, sts in terms if not h)
        tx_extra = {'observed_outcomes_not_admitted_by_Tx': unexplained,
                    'Tx_model_bound_to_the_code': unexplained == 0,
                    'Tx_terminal_states_never_observed_in_exhausted_races': only_model}
        if drift:
            print('MODEL-DRIFT property=%s: %d observed outcome(s) are not outcomes of spec/Tx.tla; the exhaustive '
                  'model-level result does not apply to this tree (the property is decided on the observed '
                  'interleavings by TraceSerial.tla alone). First: %s' % (prop, len(drift), drift[0][:400]))
            tx_extra['model_drift_examples'] = drift[:5]
    races_n = sum(r['races'] for r in results)
    cov = {
        'states': sum(m['states'] for m in models),
        'transitions': sum(m['transitions'] for m in models),
        'models': models,
        'traces_validated_against_impl': n,
        'evaluations': n,
        'distinct_nontrivial': len(outcomes),
        'rule': 'a case is one executed interleaving (at database-transaction granularity) of 2 or 3 real requests; distinct non-trivial = distinct (race, vector of statuses) outcomes observed',
        'races': races_n,
        'races_explored_completely': sum(r['complete'] for r in results),
        'samples': results[0]['sample'],
        'outcomes': dict(sorted(outcomes.items())),
        'exhaustive': False,
    }
    cov.update(tx_extra)
    if not model:
        cov.pop('states')
        cov.pop('transitions')
    return finish(prop, tier, seed, cov, violations, known, t0, [
        'each database transaction is atomic and isolated (the scheduler runs one top-level transaction at a time on SQLite); MySQL/PostgreSQL isolation anomalies are outside the property\'s own quantifier',
        'interleavings are explored depth-first with a partial-order reduction that only skips schedules differing in the order of adjacent read-only transactions; races whose schedule count exceeds the tier limit are cut off (races_explored_completely reports how many were exhausted)',
        'two oracles: API!Apply alone (TraceSerial.tla: serial order of the effective successful requests, commit-time generation guards) and the model of the transaction structure (Tx.tla: every observed outcome must be an outcome of some interleaving of the model)'])


def run_fault(prop, tier, seed, model=True):
    import multiprocessing as mp
    from pv import faults, concur
    t0 = time.time()
    cfg = FAULT[prop]
    ctx = mp.get_context('spawn')
    with ctx.Pool(1) as pool:
        nitems, single = pool.apply(faults.corpus_for_model)
    nw = 12 if tier == 'quick' else 14
    jobs = []
    for w in range(nw):
        idx = list(range(w, nitems, nw))
        if idx:
            jobs.append({'mode': cfg['mode'], 'indices': idx, 'kinds': cfg[tier]['kinds'],
                         'pairs': cfg[tier].get('pairs', 0)})
    try:
        with ctx.Pool(len(jobs)) as pool:
            results = pool.map(faults.worker, jobs, chunksize=1)
    except tlc.TLCError as ex:
        raise Machinery(str(ex))
    n = sum(r['n'] for r in results)
    fired = sum(r['fired'] for r in results)
    if n == 0 or fired == 0:
        raise Machinery('no fault was injected')
    violations, known = [], []
    outcomes = {}
    clean = {}
    for r in results:
        clean.update(r['clean'])
        for k, v in r['outcomes'].items():
            outcomes[k] = outcomes.get(k, 0) + v
        for bad in r['bad']:
            mons = [m for m in bad['monitors'] if m.startswith(prop) or m.startswith('MACHINERY')]
            if not mons:
                continue
            if any(m.startswith('MACHINERY') for m in mons):
                raise Machinery('a statement other than ROLLBACK was issued after the crash point: %s' % bad['label'])
            sig = {'engine': 'fault', 'op': bad['req']['op'],
                   'kind': 'deadlock_rb' if 'deadlock_rb' in bad['fault']['kind'] else bad['fault']['kind'],
                   'monitors': ','.join(mons), 'status': bad['status'],
                   'differs': ','.join(m[8:] for m in bad['monitors'] if m.startswith('differs:')),
                   'residue': ','.join(m[8:] for m in bad['monitors'] if m.startswith('residue:')),
                   'faults': 2 if '+' in bad['fault']['kind'] else 1,
                   'at': bad['fault']['at']}
            f = findings.lookup(prop, sig)
            why = '%s: %s with %s at statement %d (%s) answered %s' % (
                ','.join(mons), bad['label'], bad['fault']['kind'], bad['fault']['k'],
                bad['fault']['at'], bad['status'])
            if f:
                known.append((f, why))
            else:
                violations.append((bad, why, sig))
    models = []
    if model:
        races = [{'id': i + 1, 'db0': db0, 'reqs': [req], 'known': '', 'observed': []}
                 for i, (label, db0, req) in enumerate(single)]
        ok, st, report, tail = concur.run_tx_model(races, cfg='TxSingle.cfg')
        if not ok:
            raise Machinery('TLC found CrashConsistent / ExactlyOnceOrClean / Refines violated on spec/Tx.tla itself:\n' + tail)
        st['model'] = 'TxSingle.cfg (Tx.tla with Crash and Fault actions, %d single-request runs)' % len(races)
        models.append(st)
    cov = {
        'evaluations': n,
        'faults_fired': fired,
        'distinct_nontrivial': len(outcomes),
        'rule': ('one case = one request of the write corpus executed with one fault injected before its k-th SQL statement; '
                 'every k of every corpus request is enumerated for every fault kind; distinct non-trivial = distinct (request, fault kind, statement class hit, status) outcomes'),
        'corpus_requests': len(clean),
        'statements_per_request': {k: v['statements'] for k, v in sorted(clean.items())},
        'samples': results[0]['sample'] + [{'outcome': k} for k in sorted(outcomes)[:3]],
        'exhaustive': True,
        'models': models,
        'states': sum(m['states'] for m in models),
        'transitions': sum(m['transitions'] for m in models),
    }
    return finish(prop, tier, seed, cov, violations, known, t0, [
        'faults are injected from the SQLAlchemy before_cursor_execute event on SQLite; the MySQL behaviour "deadlock victim: the database rolled the transaction back" is emulated by ROLLBACK; BEGIN on the raw cursor',
        'a crash is a BaseException raised at the crash point; the harness checks that the request issues no further statement',
        'the enumeration is exhaustive over the statement indices of the corpus requests (single faults), not over all requests or fault sequences'])


def run_cand(prop, tier, seed, model=True):
    import multiprocessing as mp
    from pv import cand
    t0 = time.time()
    cfg = CAND[prop][tier]
    rnd = random.Random(seed * 31337 + 7)
    seeds = [rnd.randrange(1 << 30) for _ in range(cfg['states'])]
    nw = 12 if tier == 'quick' else 14
    jobs = []
    fam = []
    if prop in ('C03', 'C02'):
        allf = list(range(cand.family_size()))
        if tier == 'quick':
            a, b = allf[:36], allf[36:]
            rnd.shuffle(a)
            rnd.shuffle(b)
            allf = a[:14] + b[:10] if prop == 'C03' else a[:4] + b[:3]
        fam = allf + cand.OLDFORM
    if prop == 'C20':
        # the sharing family: one request may stand for several anchors, which a limit must not count
        allf = list(range(36))
        rnd.shuffle(allf)
        fam = allf[:6] if tier == 'quick' else allf
    for w in range(nw):
        ss = seeds[w::nw]
        ff = fam[w::nw]
        if ss or ff:
            j = dict(cfg)
            j.update({'mode': prop, 'seeds': ss, 'family': ff})
            jobs.append(j)
    models = []
    if model:
        models.append(run_cand_model(prop, tier))
    ctx = mp.get_context('spawn')
    try:
        with ctx.Pool(len(jobs)) as pool:
            results = pool.map(cand.worker, jobs, chunksize=1)
    except tlc.TLCError as ex:
        raise Machinery(str(ex))
    n = sum(r['n'] for r in results)
    if n == 0:
        raise Machinery('no query was validated')
    gabbi_cov = {}
    if prop in ('C02', 'C03', 'C13'):
        # the candidate / listing reads of the repository's functional test corpus, in their own fixtures
        from pv import gabbitrace
        files = sorted(f for f in os.listdir(gabbitrace.GABBITS) if f.endswith('.yaml'))
        try:
            with ctx.Pool(12) as pool:
                gres = pool.map(gabbitrace.cand_worker, [{'files': files[w::12]} for w in range(12)], chunksize=1)
        except tlc.TLCError as ex:
            raise Machinery(str(ex))
        ng = sum(r['n'] for r in gres)
        if ng < 50:
            raise Machinery('the gabbi corpus produced only %d candidate / listing reads inside the alphabet' % ng)
        gabbi_cov = {'gabbi_candidate_and_listing_reads_judged': ng}
        for r in gres:
            r.update({'keys': [], 'claims': 0, 'states': r['files'], 'between': 0, 'sample': []})
        results = list(results) + gres
        n += ng
    violations, known = [], []
    keys = set()
    hist = {}
    for r in results:
        keys.update(r['keys'])
        for k, v in r['hist'].items():
            hist[k] = hist.get(k, 0) + v
        for bad in r['bad']:
            mons = [m for m in bad['monitors'] if m.startswith(CAND_MON[prop])]
            if not mons:
                continue
            sig = {'engine': 'cand', 'kind': bad['kind'], 'monitors': ','.join(mons),
                   'status': bad['status'], 'tag': bad['tag']}
            f = findings.lookup(prop, sig)
            why = '%s: %s -> %s' % (','.join(mons), bad['path'], bad['status'])
            if f:
                known.append((f, why))
            else:
                violations.append((bad, why, sig))
    cov = {
        'states': sum(m['states'] for m in models),
        'transitions': sum(m['transitions'] for m in models),
        'models': models,
        'traces_validated_against_impl': n,
        'evaluations': n + sum(r['claims'] for r in results),
        'claims_replayed': sum(r['claims'] for r in results),
        'database_states': sum(r['states'] for r in results),
        'distinct_nontrivial': len(keys),
        'rule': 'one case = one (database state, query) pair whose response TLC compared with the declarative reference; distinct non-trivial = distinct (query, state) pairs with a non-empty result',
        'responses_strictly_between_must_and_may': sum(r['between'] for r in results),
        'histogram': dict(sorted(hist.items())),
        'samples': results[0]['sample'],
        'exhaustive': False,
    }
    cov.update(gabbi_cov)
    if not model:
        cov.pop('states')
        cov.pop('transitions')
    return finish(prop, tier, seed, cov, violations, known, t0, [
        'database states are random forests within the scope of C03 (<= 7 providers, <= 3 trees of depth <= 3, 4 classes, 4 traits incl. the sharing trait, 3 aggregates) built through the API; queries are generated, not enumerated',
        'the reference is the envelope CandMust <= observed <= CandMay of spec/Candidates.tla; the corners where the two differ are listed in the module and in DESIGN.md',
        'allocation ratios are dyadic'])


def run_cand_model(prop, tier):
    rc, out, wall = tlc.run('MC_Cand', 'MC_Cand.cfg', workers=16, timeout=3000, jvm=['-Xmx8g'])
    gen, dist = tlc.stats(out)
    if 'Model checking completed. No error has been found' not in out:
        raise Machinery('TLC model MC_Cand did not complete cleanly:\n' + out[-2500:])
    return {'model': 'MC_Cand.cfg', 'transitions': gen, 'states': dist, 'wall_s': round(wall, 1)}


def run_surface(prop, tier, seed, model=True):
    import multiprocessing as mp
    from pv import surface
    t0 = time.time()
    rules = sorted(set(surface.RULE_OF.values()) - {'none'})
    jobs = []
    if prop == 'C14':
        jobs = [{'part': 'routes', 'seed': seed, 'tier': tier, 'rules': []},
                {'part': 'features', 'seed': seed, 'tier': tier, 'rules': []},
                {'part': 'headers', 'seed': seed, 'tier': tier, 'rules': []}]
    else:
        nw = 12
        for w in range(nw):
            rs = rules[w::nw]
            jobs.append({'part': 'policy', 'seed': seed * 17 + w, 'tier': tier, 'rules': rs,
                         'with_default': w == 0})
    ctx = mp.get_context('spawn')
    try:
        with ctx.Pool(len(jobs)) as pool:
            results = pool.map(surface.worker, jobs, chunksize=1)
    except tlc.TLCError as ex:
        raise Machinery(str(ex))
    n = sum(r['n'] for r in results)
    if n == 0:
        raise Machinery('no probe was issued')
    violations, known = [], []
    for r in results:
        for bad in r['bad']:
            mons = [m for m in bad['monitors'] if m.startswith(prop)]
            if not mons:
                continue
            sig = {'engine': 'surface', 'kind': bad['kind'], 'monitors': ','.join(mons),
                   'status': bad.get('status', 0),
                   'tag': 'unknown-route' if bad.get('route') and bad['route'] not in surface.ROUTES else ''}
            if bad['kind'] == 'route':
                why = '%s: %s %s at version %s (%s) answered %s' % (','.join(mons), bad['method'], bad['route'], bad['v'], bad['vkind'], bad['status'])
            elif bad['kind'] == 'feature':
                why = '%s: feature %s at 1.%d observed %s' % (','.join(mons), bad['fid'], bad['v'], 'present' if bad['present'] else 'absent')
            elif bad['kind'] == 'hdr':
                why = '%s: %s %s (%s) at version %s (%s) answered %s' % (','.join(mons), bad['method'], bad['route'], bad['probe'], bad['v'], bad['vkind'], bad['status'])
                sig['tag'] = bad['probe']
            elif bad['kind'] == 'scope':
                why = '%s: GET /usages?%s as %s answered %s with the usages of %s' % (
                    ','.join(mons), bad['query'], bad['caller'], bad['status'],
                    {'own': 'its own project', 'other': 'another project', 'mixed': 'several projects', 'none': 'nobody'}[bad['data']])
            else:
                why = '%s: %s %s as %s (override %s %s) answered %s' % (','.join(mons), bad['method'], bad['route'], bad['caller'], bad['ovrule'] or '-', bad['ovkind'] or '-', bad['status'])
            f = findings.lookup(prop, sig)
            if f:
                known.append((f, why))
            else:
                violations.append((bad, why, sig))
    if prop == 'C14':
        rule = ('every (route, method) of the routing table plus unknown paths and undeclared methods x all 40 microversions, "latest", no header and out-of-range versions; '
                'every one of the 77 versioned features probed at all 40 microversions; distinct non-trivial = all probes (each is a distinct table cell)')
    else:
        rule = ('every (route, method) x 7 caller classes under the default policy, and for every documented rule the overrides "@" (everyone) and "!" (nobody) on the '
                'operations of that rule plus sampled other operations (thorough: all operations); each probe from a restored snapshot with a table dump afterwards; '
                'GET /usages naming one to three projects (own / another) in every order x 5 caller classes x user_id / consumer_type variants')
    cov = {'evaluations': n, 'distinct_nontrivial': n, 'rule': rule,
           'samples': [r['sample'][0] for r in results if r['sample']][:3],
           'exhaustive': True,
           'structural_laws_checked_by_TLC': 'Surface!Laws (unique operations, window shapes, feature windows upward closed, one rule per operation, policy monotone in roles, only admin/service by default)'}
    return finish(prop, tier, seed, cov, violations, known, t0, [
        'the tables of spec/Surface.tla were transcribed from rest_api_version_history.rst, the api-ref and the policy documentation; TLC is the oracle and checks their structural laws, the exploration is a complete enumeration of a finite table by the harness',
        'noauth2 middleware stands in for keystone (roles from x-roles, project from the token)'])


def run_fuzz(prop, tier, seed, model=True):
    import multiprocessing as mp
    from pv import fuzz
    t0 = time.time()
    n = FUZZ[prop][tier]['n']
    nw = 12 if tier == 'quick' else 14
    jobs = [{'seed': seed * 1009 + w, 'n': n // nw, 'topologies': [False, True]} for w in range(nw)]
    ctx = mp.get_context('spawn')
    try:
        with ctx.Pool(len(jobs)) as pool:
            results = pool.map(fuzz.worker, jobs, chunksize=1)
    except tlc.TLCError as ex:
        raise Machinery(str(ex))
    total = sum(r['n'] for r in results)
    if total == 0:
        raise Machinery('no request was issued')
    violations, known = [], []
    hist = {}
    for r in results:
        for k, v in r['hist'].items():
            hist[k] = hist.get(k, 0) + v
        for bad in r['bad']:
            tags = []
            if '\\ud800' in bad['body'] or '%ED%A0%80' in bad['path'] or '\ud800' in bad['body']:
                tags.append('lone-surrogate')
            if bad['nested_sharing'] and bad['path'].startswith('/allocation_candidates'):
                tags.append('nested-sharing-provider')
            sig = {'engine': 'fuzz', 'monitors': ','.join(bad['monitors']), 'status': bad['status'],
                   'tags': ','.join(tags)}
            why = '%s: %s %s (%s) answered %s: %s' % (','.join(bad['monitors']), bad['method'], bad['path'][:200],
                                                     bad['mutation'], bad['status'], bad['answer'][-160:].replace('\n', ' '))
            f = findings.lookup(prop, sig)
            if f:
                known.append((f, why))
            else:
                violations.append((bad, why, sig))
    statuses = {}
    for k, v in hist.items():
        st = k.rsplit(':', 1)[1]
        statuses[st] = statuses.get(st, 0) + v
    cov = {'evaluations': total, 'distinct_nontrivial': len(hist),
           'rule': 'one case = one mutated request (1-3 mutations of structure, types, bounds up to 64-bit integers, unicode / control characters, repeated and conflicting query parameters, headers, media types, malformed JSON, path, method) derived from a valid request to one of 40 seed requests covering every route, in a plain and in a nested-sharing-provider topology; distinct non-trivial = distinct (seed request, status) outcomes',
           'status_histogram': dict(sorted(statuses.items())),
           'samples': [r['sample'][0] for r in results if r['sample']][:2],
           'exhaustive': False}
    return finish(prop, tier, seed, cov, violations, known, t0, [
        'the input space is explored by a seeded random mutator, not enumerated and not by TLC; TLC (TraceFuzz.tla) is the oracle of each exchange',
        'requests are delivered in-process through webob (no real HTTP server in front): framing-level malformations (chunking, oversized headers) are outside',
        'integers beyond 64 bits are not generated (outside the property\'s bound)'])


def run_check(prop, tier, seed, model=True):
    if prop in FUZZ:
        return run_fuzz(prop, tier, seed, model=model)
    if prop in SURFACE:
        return run_surface(prop, tier, seed, model=model)
    if prop in CAND:
        return run_cand(prop, tier, seed, model=model)
    if prop in FAULT:
        return run_fault(prop, tier, seed, model=model)
    if prop in SEQ:
        return run_seq(prop, tier, seed, model=model)
    if prop in CONCUR:
        return run_concur(prop, tier, seed, model=model)
    raise Machinery('no check registered for %s' % prop)


def replay(prop, path):
    """Re-run the history prefix of a replay file against the current code and
    judge it again."""
    from pv.app import get_app
    from pv import trace, seqengine
    doc = json.load(open(path))
    if doc.get('engine') != 'seq':
        raise Machinery('replay of engine %r not supported here' % doc.get('engine'))
    rec = trace.Recorder(get_app())
    rec.new_history()
    for st in doc['prefix']:
        r = dict(st['req'])
        if 'env' in r:
            rec.env = r.pop('env')
        rec.step(r)
    verdicts, _ = trace.validate(rec.lines)
    rc = 0
    for ln, ex in zip(rec.lines, rec.extras):
        v = verdicts[ln['id']]
        bad = {'line': ln, 'verdict': v, 'extra_bad': []}
        why = seqengine.attribute(prop, bad) if (v['diff'] or v['mon']) else None
        print(ln['id'], ln['req']['op'], ln['resp']['status'], v['diff'], v['mon'],
              '<-- ' + why if why else '')
        if why:
            rc = 1
    if rc:
        print('VIOLATION property=%s replay=%s' % (prop, path))
    return rc
