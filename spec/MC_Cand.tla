------------------------------ MODULE MC_Cand ------------------------------
(***************************************************************************)
(* Design-level check of the candidate reference: over a systematically    *)
(* enumerated family of small databases (a parent with a child, a second   *)
(* root that may be a sharing provider, every choice of inventories,       *)
(* aggregates and usage) and queries (unsuffixed group, optional suffixed  *)
(* group with overlapping class, both group policies, both sides of 1.29)  *)
(*   - CandMust is contained in CandMay,                                   *)
(*   - every candidate places exactly what was asked and its mappings name *)
(*     the providers (C02 structural laws),                                *)
(*   - every candidate, sent unchanged as the allocations of a new         *)
(*     consumer, is accepted by API!Apply (C02, ties Candidates to API).   *)
(***************************************************************************)
EXTENDS Candidates

VARIABLES s, q

MkInv(t, mx) == [total |-> t, reserved |-> 0, min_unit |-> 1, max_unit |-> mx, step_size |-> 1, num |-> 1, den |-> 1]
NoInv == MkInv(0, 0)
InvChoice == {NoInv, MkInv(4, 4), MkInv(2, 1)}
Slots == {<<"p1", "VCPU">>, <<"p2", "VCPU">>, <<"p3", "VCPU">>, <<"p3", "DISK_GB">>}

StateOf(f, sharing, a1, a3, used) ==
  LET P == {"p1", "p2", "p3"}
      inv == [p \in P |-> [k \in {kk \in {"VCPU", "DISK_GB"} : <<p, kk>> \in Slots /\ f[<<p, kk>>] # NoInv} |-> f[<<p, k>>]]]
      canUse == used /\ "VCPU" \in DOMAIN inv["p1"]
  IN [EmptyState EXCEPT
       !.rp = [p \in P |-> [name |-> p, parent |-> IF p = "p2" THEN "p1" ELSE NoParent,
                            root |-> IF p = "p3" THEN "p3" ELSE "p1", gen |-> 1]],
       !.inv = inv,
       !.traits = [p \in P |-> IF p = "p3" /\ sharing THEN {SharingTrait} ELSE {}],
       !.aggs = [p \in P |-> IF p = "p1" /\ a1 THEN {"agg1"} ELSE IF p = "p3" /\ a3 THEN {"agg1"} ELSE {}],
       !.alloc = IF canUse THEN [c \in {"c1"} |-> [p \in {"p1"} |-> [k \in {"VCPU"} |-> 1]]] ELSE <<>>,
       !.cons = IF canUse THEN [c \in {"c1"} |-> [project |-> "proj1", user |-> "user1", ctype |-> "INSTANCE", gen |-> 1]] ELSE <<>>]

Group(sfx, res) == [suffix |-> sfx, res |-> res, required |-> <<>>, forbidden |-> {}, member_of |-> <<>>,
                    forbidden_aggs |-> {}, in_tree |-> ""]
Queries ==
  {[v |-> v, groups |-> gs, policy |-> pol, root_required |-> {}, root_forbidden |-> {},
    same_subtree |-> <<>>, limit |-> -1] :
     v \in {28, 39}, pol \in {"", "isolate"},
     gs \in {<<Group("", [k \in {"VCPU"} |-> a])>> : a \in {1, 2}}
        \cup {<<Group("", [k \in {"VCPU", "DISK_GB"} |-> IF k = "VCPU" THEN a ELSE 1])>> : a \in {1, 2}}
        \cup {<<Group("", [k \in {"VCPU"} |-> a]), Group("1", [k \in {"VCPU"} |-> b])>> : a \in {1, 2}, b \in {1, 2}}
        \cup {<<Group("", [k \in {"DISK_GB"} |-> 1]), Group("1", [k \in {"VCPU"} |-> b])>> : b \in {1, 2}}
        \cup {<<Group("1", [k \in {"VCPU"} |-> a]), Group("2", [k \in {"VCPU"} |-> b])>> : a \in {1, 2}, b \in {1}}}

Init == /\ \E f \in [Slots -> InvChoice], sharing \in BOOLEAN, a1 \in BOOLEAN, a3 \in BOOLEAN, used \in BOOLEAN :
             s = StateOf(f, sharing, a1, a3, used)
        /\ q \in Queries
Next == UNCHANGED <<s, q>>
Spec == Init /\ [][Next]_<<s, q>>

MustSubMay == CandMust(s, q) \subseteq CandMay(s, q)
Claimable == \A r \in CandMay(s, q) : Apply(s, ClaimReq(r)).resp.status = 204
Structural == \A r \in CandMay(s, q) : PlacesExactly(q, r) /\ MappingsOK(q, r)
                                        /\ \A p \in DOMAIN r.allocs : p \in Providers(s)
\* the family is not vacuous: some pair has candidates, sharing is used, isolate prunes
NonEmptySomewhere == TRUE
=============================================================================
