"""Sequential-history engine: drive the real application with generated and
scripted histories, validate every recorded step with TLC (TraceAPI.tla),
attribute the verdicts to properties."""
import json
import multiprocessing as mp
import os
import random
import time

from pv import tlc

ALLOC_WRITERS = ('alloc_put', 'alloc_post', 'reshape')


def _worker(job):
    # imported here: one application per worker process
    from pv.app import get_app
    from pv import gen, trace, scenarios
    app = get_app()
    rec = trace.Recorder(app)
    hist_of = {}
    t0 = time.time()
    for h in job['histories']:
        rnd = random.Random(h['seed'])
        if h.get('conf'):
            for (grp, key), val in h['conf'].items():
                app.conf.set_override(key, val, group=grp)
            rec.env = dict(h.get('env') or rec.env)
        rec.new_history()
        first = len(rec.lines)
        if h.get('scenario'):
            scenarios.run(h['scenario'], rec, rnd)
        else:
            g = gen.Gen(rnd, weights=job.get('weights') or {},
                        nprov=h.get('nprov', 5), ncons=h.get('ncons', 4),
                        versions=job.get('versions'))
            for _ in range(h['length']):
                st = rec._pre or rec.state()[0]
                rec.step(g.next(st))
                if job.get('read_after_write'):
                    scenarios.read_back(rec, g)
        for ln in rec.lines[first:]:
            hist_of[ln['id']] = (h.get('scenario') or 'random', h['seed'], first)
        if h.get('conf'):
            for (grp, key), val in h['conf'].items():
                app.conf.clear_override(key, group=grp)
            rec.env = dict(trace.ENV)
    t_rec = time.time() - t0
    verdicts, st = trace.validate(rec.lines)
    out = {'n': len(rec.lines), 'stats': st, 't_rec': t_rec, 'bad': [],
           'ops': {}, 'keys': {}, 'histories': len(job['histories'])}
    for ln, ex in zip(rec.lines, rec.extras):
        v = verdicts[ln['id']]
        op = ln['req']['op']
        k = '%s:%s' % (op, ln['resp']['status'])
        out['ops'][k] = out['ops'].get(k, 0) + 1
        for prop, fn in NONTRIVIAL.items():
            key = fn(ln)
            if key is not None:
                out['keys'].setdefault(prop, set()).add(key)
        extra_bad = []
        e = ex['extra']
        if e['dangling']:
            extra_bad.append('dangling')
        if not e['std_classes_ok'] or not e['std_traits_ok'] or e['dup_class_ids']:
            extra_bad.append('std')
        if v['diff'] or v['mon'] or extra_bad:
            name, seed, first = hist_of[ln['id']]
            # the history prefix that leads to the step, for the replay file
            prefix = [{'req': x['req'], 'resp': x['resp']}
                      for x in rec.lines[first:ln['id'] - rec.lines[0]['id'] + 1]]
            out['bad'].append({'line': ln, 'verdict': v, 'extra_bad': extra_bad,
                               'http': ex['http'], 'history': name,
                               'seed': seed, 'prefix': prefix})
    out['keys'] = {p: sorted(s) for p, s in out['keys'].items()}
    out['sample'] = [{'req': x['req'], 'status': x['resp']['status']}
                     for x in rec.lines[:3]]
    return out


def _j(x):
    return json.dumps(x, sort_keys=True)


# what makes a recorded step a distinct non-trivial case for a property
def _nt_c01(ln):
    r = ln['req']
    if r['op'] in ALLOC_WRITERS and ln['resp']['status'] in (204, 409) \
            and ln['resp']['code'] != 'placement.concurrent_update':
        d = dict(r)
        d.pop('v', None)
        return _j([d, ln['resp']['status'], ln['pre']['inv'], ln['pre']['alloc']])[:4000]


def _nt_c04(ln):
    if ln['resp']['status'] >= 400 and ln['req']['op'] in (
            'alloc_put', 'alloc_post', 'reshape', 'inv_put_all', 'inv_put',
            'inv_post', 'rp_traits_put', 'agg_put', 'inv_del', 'inv_del_all',
            'rp_update', 'rp_create', 'rp_delete'):
        return _j([ln['req'], ln['resp']['status'], ln['resp']['code']])[:3000]


def _nt_c08(ln):
    if ln['req']['op'] in ('rp_delete', 'inv_del', 'inv_del_all', 'rc_del',
                           'trait_del', 'inv_put_all', 'reshape', 'alloc_del'):
        return _j([ln['req'], ln['resp']['status'], sorted(ln['pre']['alloc'])])[:3000]


def _nt_c09(ln):
    if ln['req']['op'] in ('rp_create', 'rp_update', 'rp_delete'):
        shape = sorted((p, d['parent']) for p, d in ln['pre']['rp'].items())
        return _j([ln['req'], ln['resp']['status'], shape])


def _nt_c10(ln):
    if ln['req']['op'] not in READ_OPS and ln['resp']['status'] < 300:
        d = dict(ln['req'])
        return _j(d)[:3000]


def _nt_c11(ln):
    return _j([ln['req'], ln['resp']['status']])[:3000]


def _nt_c12(ln):
    if ln['req']['op'] in ALLOC_WRITERS + ('alloc_del',):
        return _j([ln['req'], ln['resp']['status'], sorted(ln['pre']['cons'])])[:3000]


def _nt_c19(ln):
    if ln['req']['op'] in ('rc_post', 'rc_put', 'rc_del', 'trait_put',
                           'trait_del', 'sync'):
        return _j([ln['req'], ln['resp']['status'], sorted(ln['pre']['classes']),
                   sorted(ln['pre']['ctraits'])])


READ_OPS = ('rp_get', 'inv_list', 'inv_get', 'rp_usages', 'agg_get',
            'rp_traits_get', 'rp_allocs', 'trait_get', 'traits_list',
            'rc_list', 'rc_get', 'alloc_get', 'usages', 'root')

NONTRIVIAL = {'C01': _nt_c01, 'C04': _nt_c04, 'C08': _nt_c08, 'C09': _nt_c09,
              'C10': _nt_c10, 'C11': _nt_c11, 'C12': _nt_c12, 'C19': _nt_c19}


def attribute(prop, bad):
    """Is the rejected / monitor-failing step `bad` a violation of `prop`?
    Returns a short reason or None (design 5.5)."""
    v = bad['verdict']
    ln = bad['line']
    op = ln['req']['op']
    mon = set(v['mon'])
    diff = set(v['diff'])
    got = ln['resp']['status']
    exp = v['exp_status']

    def mons(prefix):
        return sorted(m for m in mon if m.startswith(prefix))
    if prop == 'C01':
        if mons('C01'):
            return 'monitor ' + ','.join(mons('C01'))
        if op in ALLOC_WRITERS and got < 300 <= exp:
            return 'allocation write accepted (%d) where the specification rejects it (%d)' % (got, exp)
    elif prop == 'C04':
        if mons('C04'):
            return 'monitor C04_Step: a rejected request changed the state (%s)' % ','.join(sorted(diff))
    elif prop == 'C08':
        if mons('C08') or 'dangling' in bad['extra_bad']:
            return 'monitor ' + ','.join(mons('C08') + bad['extra_bad'])
    elif prop == 'C09':
        if mons('C09'):
            return 'monitor ' + ','.join(mons('C09'))
        if op in ('rp_create', 'rp_update', 'rp_delete') and 'rp' in diff:
            return 'provider hierarchy differs from the specification after %s' % op
    elif prop == 'C10':
        # only what C10 states: the magnitude of a generation is not demanded
        if mons('C10'):
            return 'monitor C10_Step'
    elif prop == 'C11':
        # generations are opaque: how far one moved is C10's business
        diff = diff - {'rpgen', 'consgen', 'bodygen'}
        if diff or 'TypeOK' in mon:
            return 'step is not a step of the specification: %s (expected %s %s)' % (
                ','.join(sorted(diff | (mon & {'TypeOK'}))), exp, v['exp_code'])
    elif prop == 'C12':
        if mons('C12'):
            return 'monitor ' + ','.join(mons('C12'))
        if diff & {'cons'}:
            return 'consumer records differ from the specification'
    elif prop == 'C19':
        if mons('C19') or 'std' in bad['extra_bad']:
            return 'monitor ' + ','.join(mons('C19') + bad['extra_bad'])
        if diff & {'classes', 'ctraits'}:
            return 'classes/traits differ from the specification'
    return None


def run_jobs(jobs, procs=None):
    procs = procs or min(12, max(1, (os.cpu_count() or 2) - 2))
    ctx = mp.get_context('spawn')
    with ctx.Pool(min(procs, len(jobs))) as pool:
        return pool.map(_worker, jobs, chunksize=1)


def split_jobs(histories, nworkers, **common):
    jobs = [dict(common, histories=[]) for _ in range(nworkers)]
    for i, h in enumerate(histories):
        jobs[i % nworkers]['histories'].append(h)
    return [j for j in jobs if j['histories']]
