SPECIFICATION Spec
CONSTANTS
  P = {"p1", "p2", "p3", "p4"}
  K = {"VCPU"}
  C = {"c1"}
  T = {"CUSTOM_T1"}
  A = {"agg1"}
  INVS <- InvsTwo
  AMTS = {1}
  GROUPS <- G_forest
  MAXGEN = 3
  MAXDEPTH = 100
VIEW View
INVARIANT Inv_TypeOK
INVARIANT Inv_C08
INVARIANT Inv_C09
PROPERTY Step_C04
PROPERTY Step_C09
PROPERTY Step_C10
CHECK_DEADLOCK FALSE
