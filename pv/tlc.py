"""Running TLC and reading what it prints."""
import os
import re
import shutil
import subprocess
import tempfile
import time

HERE = os.path.dirname(os.path.abspath(__file__))
SPEC = os.path.join(os.path.dirname(HERE), 'spec')
JARS = ('/opt/veriftools/tla/tla2tools.jar:'
        '/opt/veriftools/tla/CommunityModules-deps.jar')


class TLCError(Exception):
    pass


def run(module, cfg, env=None, workers=1, extra=(), timeout=3600,
        metadir=None, simulate=None, depth=None, jvm=()):
    """Run TLC on spec/<module>.tla with spec/<cfg>.  Returns (rc, output)."""
    own = metadir is None
    if own:
        metadir = tempfile.mkdtemp(prefix='pv-tlc-')
    cmd = ['java', '-XX:+UseParallelGC', '-Djava.io.tmpdir=' + tempfile.gettempdir()] + list(jvm) + [
        '-cp', JARS, 'tlc2.TLC', '-workers', str(workers),
        '-metadir', metadir, '-noGenerateSpecTE',
        '-config', os.path.join(SPEC, cfg)]
    if simulate:
        cmd += ['-simulate', simulate]
    if depth:
        cmd += ['-depth', str(depth)]
    cmd += list(extra)
    cmd.append(os.path.join(SPEC, module + '.tla'))
    e = dict(os.environ)
    if env:
        e.update(env)
    t = time.time()
    try:
        p = subprocess.run(cmd, cwd=SPEC, env=e, stdout=subprocess.PIPE,
                           stderr=subprocess.STDOUT, timeout=timeout)
        out = p.stdout.decode('utf-8', 'replace')
        rc = p.returncode
    except subprocess.TimeoutExpired as ex:
        out = (ex.stdout or b'').decode('utf-8', 'replace')
        rc = -9
    finally:
        if own:
            shutil.rmtree(metadir, ignore_errors=True)
    return rc, out, time.time() - t


_STATS = re.compile(r'(\d+) states generated, (\d+) distinct states found')


def stats(out):
    """(generated, distinct) of the last summary line TLC printed."""
    m = None
    for m in _STATS.finditer(out):
        pass
    if not m:
        return 0, 0
    return int(m.group(1)), int(m.group(2))


def ok(out):
    return ('Model checking completed. No error has been found' in out or
            'Finished in' in out and 'Error:' not in out)


# -- a small parser for TLC value syntax (what PrintT emits) -----------------

class _P(object):
    def __init__(self, s):
        self.s = s
        self.i = 0

    def ws(self):
        while self.i < len(self.s) and self.s[self.i] in ' \n\r\t':
            self.i += 1

    def peek(self, n=1):
        return self.s[self.i:self.i + n]

    def expect(self, t):
        self.ws()
        if not self.s.startswith(t, self.i):
            raise ValueError('expected %r at %d: %r' %
                             (t, self.i, self.s[self.i:self.i + 40]))
        self.i += len(t)

    def value(self):
        self.ws()
        c = self.peek()
        if c == '"':
            return self.string()
        if self.peek(2) == '<<':
            return self.seq()
        if c == '{':
            return self.set()
        if c == '[':
            return self.record()
        if c == '(':
            return self.func()
        m = re.compile(r'-?\d+').match(self.s, self.i)
        if m:
            self.i = m.end()
            return int(m.group(0))
        m = re.compile(r'[A-Za-z_][A-Za-z0-9_]*').match(self.s, self.i)
        if m:
            self.i = m.end()
            w = m.group(0)
            if w == 'TRUE':
                return True
            if w == 'FALSE':
                return False
            return w
        raise ValueError('bad value at %d: %r' %
                         (self.i, self.s[self.i:self.i + 40]))

    def string(self):
        self.expect('"')
        out = []
        while True:
            c = self.s[self.i]
            if c == '\\':
                out.append(self.s[self.i + 1])
                self.i += 2
            elif c == '"':
                self.i += 1
                break
            else:
                out.append(c)
                self.i += 1
        return ''.join(out)

    def items(self, close):
        res = []
        self.ws()
        if self.s.startswith(close, self.i):
            self.i += len(close)
            return res
        while True:
            res.append(self.value())
            self.ws()
            if self.s.startswith(close, self.i):
                self.i += len(close)
                return res
            self.expect(',')

    def seq(self):
        self.expect('<<')
        return self.items('>>')

    def set(self):
        self.expect('{')
        return TSet(self.items('}'))

    def record(self):
        self.expect('[')
        d = {}
        self.ws()
        if self.peek() == ']':
            self.i += 1
            return d
        while True:
            self.ws()
            m = re.compile(r'[A-Za-z_][A-Za-z0-9_]*').match(self.s, self.i)
            k = m.group(0)
            self.i = m.end()
            self.expect('|->')
            d[k] = self.value()
            self.ws()
            if self.peek() == ']':
                self.i += 1
                return d
            self.expect(',')

    def func(self):
        # (k1 :> v1 @@ k2 :> v2)
        self.expect('(')
        d = {}
        while True:
            k = self.value()
            self.expect(':>')
            v = self.value()
            d[k if not isinstance(k, list) else tuple(k)] = v
            self.ws()
            if self.peek() == ')':
                self.i += 1
                return d
            self.expect('@@')


class TSet(list):
    """A TLA+ set, kept as a list (elements may be unhashable)."""
    pass


def parse_value(text):
    p = _P(text)
    v = p.value()
    return v


def printed_values(out, tag):
    """All values TLC printed with PrintT(<<tag, ...>>): bracket matching over
    the whole output (a value may span lines)."""
    res = []
    key = re.compile(r'<<\s*"%s"' % re.escape(tag))
    i = 0
    while True:
        m = key.search(out, i)
        if not m:
            break
        j = m.start()
        p = _P(out)
        p.i = j
        try:
            v = p.value()
        except Exception:
            i = j + 1
            continue
        res.append(v)
        i = p.i
    return res
