------------------------------- MODULE Props -------------------------------
(***************************************************************************)
(* Property monitors.  Each Cnn_* below is written from the statement of   *)
(* property Cnn alone (not from API!Apply) as a predicate on one observed  *)
(* step  pre --(r / resp)--> post  or on one state.  They are used         *)
(*  - as invariants / action properties of the TLC models (MC_*.tla), and  *)
(*  - as monitors on every step of every recorded trace (Trace*.tla).      *)
(***************************************************************************)
EXTENDS API

IsOk(resp)  == resp.status < 300
IsErr(resp) == resp.status >= 400

\* the positive amounts <<c, u, rc, amt>> a write request asks for
Placed(r) == CASE r.op = "alloc_put" ->
                   Items(<<[c |-> r.c, allocs |-> LastWins(r.allocs)]>>)
               [] r.op \in {"alloc_post", "reshape"} -> Items(r.entries)
               [] OTHER -> {}
WrittenConsumers(r) == CASE r.op = "alloc_put" -> {r.c}
                         [] r.op \in {"alloc_post", "reshape"} -> {r.entries[i].c : i \in DOMAIN r.entries}
                         [] OTHER -> {}
AllPairs(s) == UNION {{<<p, k>> : k \in DOMAIN s.inv[p]} : p \in DOMAIN s.inv}

---------------------------------------------------------------------------
\* C01  allocation writes never over-commit inventory or break unit constraints
C01_Accepted(pre, r, resp, post) ==
  (r.op \in AllocWriters /\ IsOk(resp)) =>
     \A it \in Placed(r) :
        /\ HasInv(post, it[2], it[3])
        /\ UnitsOK(post.inv[it[2]][it[3]], it[4])
        /\ ~Over(post, it[2], it[3])
  \* and what the written consumers hold afterwards (whatever the request was parsed into)
  /\ (r.op \in AllocWriters /\ IsOk(resp)) =>
     \A c \in WrittenConsumers(r) \cap DOMAIN post.alloc : \A p \in DOMAIN post.alloc[c] : \A k \in DOMAIN post.alloc[c][p] :
        /\ HasInv(post, p, k)
        /\ UnitsOK(post.inv[p][k], post.alloc[c][p][k])
C01_OverOnlyByInventory(pre, r, resp, post) ==
  \A pk \in AllPairs(post) :
     (Over(post, pk[1], pk[2]) /\ ~Over(pre, pk[1], pk[2])) => r.op \in InventoryWriters
C01_NoGrowthWhileOver(pre, r, resp, post) ==
  \A pk \in AllPairs(post) :
     (Over(pre, pk[1], pk[2]) /\ Over(post, pk[1], pk[2])) => Used(post, pk[1], pk[2]) <= Used(pre, pk[1], pk[2])
C01_Step(pre, r, resp, post) ==
  /\ C01_Accepted(pre, r, resp, post)
  /\ C01_OverOnlyByInventory(pre, r, resp, post)
  /\ C01_NoGrowthWhileOver(pre, r, resp, post)

\* C04  rejected writes leave no trace (aux residue is outside the state)
C04_Step(pre, r, resp, post) == IsErr(resp) => post = pre

\* C08  referential integrity and deletion rules
C08_Inv(s) == RefIntegrity(s)
C08_DeleteRules(pre, r, resp, post) ==
  /\ (r.op = "rp_delete" /\ r.u \in Providers(pre) /\ (HasAllocs(pre, r.u) \/ Children(pre, r.u) # {}))
        => (resp.status = 409 /\ post = pre)
  /\ (r.op = "rp_delete" /\ IsOk(resp))
        => (r.u \notin Providers(post) /\ r.u \notin DOMAIN post.inv
            /\ r.u \notin DOMAIN post.traits /\ r.u \notin DOMAIN post.aggs)
  /\ (r.op = "inv_del" /\ r.u \in Providers(pre) /\ r.rc \in AllocClasses(pre, r.u))
        => (resp.status = 409 /\ post = pre)
  /\ (r.op = "inv_del_all" /\ r.v >= 5 /\ r.u \in Providers(pre) /\ AllocClasses(pre, r.u) # {})
        => (resp.status = 409 /\ post = pre)
  /\ (r.op = "rc_del" /\ r.v >= 2 /\ r.name \in StdClasses) => (resp.status = 400 /\ post = pre)
  /\ (r.op = "rc_del" /\ r.v >= 2 /\ r.name \in DOMAIN pre.classes /\ \E p \in Providers(pre) : HasInv(pre, p, r.name))
        => (resp.status = 409 /\ post = pre)
  /\ (r.op = "trait_del" /\ r.v >= 6 /\ r.name \in StdTraits) => (resp.status = 400 /\ post = pre)
  /\ (r.op = "trait_del" /\ r.v >= 6 /\ r.name \in pre.ctraits /\ \E p \in Providers(pre) : r.name \in pre.traits[p])
        => (resp.status = 409 /\ post = pre)

\* C09  the hierarchy is a forest with correct root pointers
C09_Inv(s) == Forest(s) /\ RootCorrect(s)
C09_Rejects(pre, r, resp, post) ==
  LET rejected == resp.status \in {400, 409} /\ post = pre IN
  /\ (r.op = "rp_update" /\ r.u \in Providers(pre) /\ r.parent \notin {"", "null"}) =>
       /\ (r.parent \in Subtree(pre, r.u) => rejected)                        \* loop
       /\ (r.parent \notin Providers(pre) => rejected)                        \* missing parent
       /\ (r.v < 37 /\ pre.rp[r.u].parent \notin {NoParent, r.parent} => rejected)  \* move before 1.37
  /\ (r.op = "rp_update" /\ r.u \in Providers(pre) /\ r.parent = "null"
        /\ r.v < 37 /\ pre.rp[r.u].parent # NoParent) => rejected            \* detach before 1.37
  /\ (r.op = "rp_create" /\ r.parent \notin {"", "null"} /\ r.parent \notin Providers(pre)) => rejected
  /\ (r.op = "rp_delete" /\ r.u \in Providers(pre) /\ Children(pre, r.u) # {}) => rejected

\* C10  generations move forward on every change and only then
GenOfResp(r, resp) ==
  IF ~IsOk(resp) \/ "gen" \notin DOMAIN resp.body THEN -1
  ELSE IF r.op \in {"inv_post", "inv_put", "inv_put_all", "rp_traits_put", "rp_create", "rp_update"} THEN resp.body.gen
  ELSE IF r.op = "agg_put" /\ r.v >= 19 THEN resp.body.gen
  ELSE -1
C10_Step(pre, r, resp, post) ==
  LET both  == Providers(pre) \cap Providers(post)
      cboth == (DOMAIN pre.cons) \cap (DOMAIN post.cons) IN
  /\ \A p \in both : post.rp[p].gen >= pre.rp[p].gen
  /\ \A c \in cboth : post.cons[c].gen >= pre.cons[c].gen
  /\ (IsErr(resp) \/ r.op \in ReadOps) =>
        /\ \A p \in both : post.rp[p].gen = pre.rp[p].gen
        /\ \A c \in cboth : post.cons[c].gen = pre.cons[c].gen
  /\ (IsOk(resp) /\ r.op \in {"inv_post", "inv_put", "inv_put_all", "inv_del", "inv_del_all"} /\ r.u \in both)
        => post.rp[r.u].gen > pre.rp[r.u].gen
  /\ (IsOk(resp) /\ r.op = "agg_put" /\ r.v >= 19 /\ r.u \in both) => post.rp[r.u].gen > pre.rp[r.u].gen
  /\ (IsOk(resp) /\ r.op \in {"rp_traits_put", "rp_traits_del"} /\ r.u \in both /\ post.traits[r.u] # pre.traits[r.u])
        => post.rp[r.u].gen > pre.rp[r.u].gen
  /\ (IsOk(resp) /\ r.op \in AllocWriters) =>
        /\ \A it \in Placed(r) : it[2] \in both => post.rp[it[2]].gen > pre.rp[it[2]].gen
        /\ \A c \in WrittenConsumers(r) \cap cboth : post.cons[c].gen > pre.cons[c].gen
  /\ (IsOk(resp) /\ r.op = "reshape") =>
        \A i \in DOMAIN r.invs : r.invs[i].u \in both => post.rp[r.invs[i].u].gen > pre.rp[r.invs[i].u].gen
  /\ (GenOfResp(r, resp) # -1 /\ r.u \in Providers(post)) => GenOfResp(r, resp) = post.rp[r.u].gen

\* C12  consumers exist exactly while they hold allocations
C12_Inv(s) == ConsumerIffAllocs(s)
C12_Step(pre, r, resp, post) ==
  (IsOk(resp) /\ r.op \in AllocWriters) =>
     \A c \in WrittenConsumers(r) :
        LET e == IF r.op = "alloc_put" THEN r ELSE r.entries[CHOOSE i \in DOMAIN r.entries : r.entries[i].c = c] IN
        /\ (e.allocs # <<>>) =>
             /\ c \in DOMAIN post.cons
             /\ post.cons[c].project = EProject(r, e) /\ post.cons[c].user = EUser(r, e)
             /\ (r.v >= 38 => post.cons[c].ctype = e.ctype)
             /\ (c \notin DOMAIN pre.cons /\ r.v < 38 => post.cons[c].ctype = UnknownType)
        /\ (e.allocs = <<>>) => c \notin DOMAIN post.cons

\* C19  standard names immutable, custom ones namespaced, ids unique >= 10000
C19_Inv(s) == ClassIdsOK(s)
              /\ DOMAIN s.classes \subseteq CustomClassPool /\ s.ctraits \subseteq CustomTraitPool
C19_Step(pre, r, resp, post) ==
  /\ (r.op \in {"rc_del", "rc_put"} /\ r.v >= 2 /\ r.name \in StdClasses) => (resp.status = 400 /\ post = pre)
  /\ (r.op = "trait_del" /\ r.v >= 6 /\ r.name \in StdTraits) => (resp.status = 400 /\ post = pre)
  /\ (r.op \in {"trait_put"} /\ r.v >= 6 /\ r.name \notin CustomTraitPool) => (resp.status = 400 /\ post = pre)
  /\ (r.op = "rc_post" /\ r.v >= 2 /\ r.name \notin CustomClassPool) => (resp.status = 400 /\ post = pre)
  /\ (r.op = "rc_post" /\ r.v >= 2 /\ r.name \in DOMAIN pre.classes) => (resp.status = 409 /\ post = pre)
  /\ (r.op = "rc_put" /\ r.v >= 7 /\ r.name \in DOMAIN pre.classes) => (resp.status = 204 /\ post = pre)
  /\ (r.op = "trait_put" /\ r.v >= 6 /\ r.name \in pre.ctraits) => (resp.status = 204 /\ post = pre)
  \* ids of classes that persist never change; a new id collides with none that existed
  /\ \A k \in (DOMAIN pre.classes) \cap (DOMAIN post.classes) : r.op # "rc_put" => post.classes[k] = pre.classes[k]
  /\ \A k \in (DOMAIN post.classes) \ (DOMAIN pre.classes) :
        r.op # "rc_put" \/ r.v >= 7 => \A j \in DOMAIN pre.classes : pre.classes[j] # post.classes[k]

\* Generations are opaque: comparisons of whole states that must not depend on
\* how far a generation moved.
\* generations erased
NoGens(s) == [s EXCEPT !.rp = [p \in DOMAIN @ |-> [@[p] EXCEPT !.gen = 0]],
                       !.cons = [c \in DOMAIN @ |-> [@[c] EXCEPT !.gen = 0]]]

\* `got` is `want` up to how far generations moved: equal with generations
\* erased; a generation that `want` leaves as it was in db0 is as it was, one
\* that `want` moves has moved forward (by however much: a retry, or an
\* implementation that bumps in more or fewer steps than Apply, is the same
\* to a client)
SameUpToRetriedGens(db0, want, got) ==
  /\ NoGens(got) = NoGens(want)
  /\ \A p \in Providers(want) :
        p \in Providers(db0) =>
           IF want.rp[p].gen = db0.rp[p].gen
           THEN got.rp[p].gen = db0.rp[p].gen ELSE got.rp[p].gen > db0.rp[p].gen
  /\ \A c \in DOMAIN want.cons :
        c \in DOMAIN db0.cons =>
           IF want.cons[c].gen = db0.cons[c].gen
           THEN got.cons[c].gen = db0.cons[c].gen ELSE got.cons[c].gen > db0.cons[c].gen

\* generations as observed (for the entities both states have)
AdoptGens(st, obs) ==
  [st EXCEPT !.rp = [p \in DOMAIN @ |-> IF p \in DOMAIN obs.rp THEN [@[p] EXCEPT !.gen = obs.rp[p].gen] ELSE @[p]],
             !.cons = [c \in DOMAIN @ |-> IF c \in DOMAIN obs.cons THEN [@[c] EXCEPT !.gen = obs.cons[c].gen] ELSE @[c]]]

\* names of the monitors that fail on a step (reported by the trace checker).
\* A state invariant is blamed on the step that breaks it (or on the first
\* step of a history), not on every later step of the same history.
Breaks(Inv(_), pre, post, first) == ~Inv(post) /\ (first \/ Inv(pre))
StepMonitors(pre, r, resp, post, first) ==
     (IF C01_Step(pre, r, resp, post) THEN {} ELSE {"C01_Step"})
\cup (IF C04_Step(pre, r, resp, post) THEN {} ELSE {"C04_Step"})
\cup (IF Breaks(C08_Inv, pre, post, first) THEN {"C08_Inv"} ELSE {})
\cup (IF C08_DeleteRules(pre, r, resp, post) THEN {} ELSE {"C08_DeleteRules"})
\cup (IF Breaks(C09_Inv, pre, post, first) THEN {"C09_Inv"} ELSE {})
\cup (IF C09_Rejects(pre, r, resp, post) THEN {} ELSE {"C09_Rejects"})
\cup (IF C10_Step(pre, r, resp, post) THEN {} ELSE {"C10_Step"})
\cup (IF Breaks(C12_Inv, pre, post, first) THEN {"C12_Inv"} ELSE {})
\cup (IF C12_Step(pre, r, resp, post) THEN {} ELSE {"C12_Step"})
\cup (IF Breaks(C19_Inv, pre, post, first) THEN {"C19_Inv"} ELSE {})
\cup (IF C19_Step(pre, r, resp, post) THEN {} ELSE {"C19_Step"})
\cup (IF Breaks(TypeOK, pre, post, first) THEN {"TypeOK"} ELSE {})

\* the monitors that need no knowledge of the request (exchanges outside the
\* alphabet of Apply are judged by these and by "a refused request and a
\* read change nothing")
StateMonitors(pre, post, first) ==
     (IF Breaks(C08_Inv, pre, post, first) THEN {"C08_Inv"} ELSE {})
\cup (IF Breaks(C09_Inv, pre, post, first) THEN {"C09_Inv"} ELSE {})
\cup (IF Breaks(C12_Inv, pre, post, first) THEN {"C12_Inv"} ELSE {})
\cup (IF Breaks(C19_Inv, pre, post, first) THEN {"C19_Inv"} ELSE {})
\cup (IF Breaks(TypeOK, pre, post, first) THEN {"TypeOK"} ELSE {})
\cup (IF \A p \in (DOMAIN pre.rp) \cap (DOMAIN post.rp) : post.rp[p].gen >= pre.rp[p].gen THEN {} ELSE {"C10_Step"})
\cup (IF \A c \in (DOMAIN pre.cons) \cap (DOMAIN post.cons) : post.cons[c].gen >= pre.cons[c].gen THEN {} ELSE {"C10_Step"})

=============================================================================
