"""Fault and crash injection at SQL-statement granularity (C17, C18).

A request runs in a thread under pv/sched.Controller; its statements are
numbered by the before_cursor_execute event and at statement k the hook
raises, *before* the statement runs:

  deadlock     oslo_db DBDeadlock, database transaction left intact
               (lock wait timeout)
  deadlock_rb  the same after the database rolled the whole transaction back
               and implicitly started a new one (MySQL deadlock victim);
               emulated on SQLite by ROLLBACK; BEGIN on the raw cursor
  duplicate    DBDuplicateEntry (INSERT statements only)
  generic      DBError
  conn         DBConnectionError
  crash        the process dies: a BaseException no layer handles; the
               transaction in flight is rolled back, committed work stays
  crash_after_commit  the process dies right after the k-th commit
"""
import json
import os
import shutil
import tempfile

from oslo_db import exception as db_exc

from pv import project
from pv import reqs as reqmod
from pv import sched
from pv import tlc


class Crash(BaseException):
    pass


def _no_retry_sleep():
    """oslo.db's wrap_db_retry sleeps 1, 2, 4 ... seconds between attempts;
    virtualise that (library side, nothing of placement is touched)."""
    import oslo_db.api as oapi

    class _T(object):
        def __getattr__(self, name):
            import time as _time
            return getattr(_time, name)

        @staticmethod
        def sleep(s):
            return None
    oapi.time = _T()


KINDS = ('deadlock', 'deadlock_rb', 'duplicate', 'generic', 'conn')


def _classify(stmt):
    s = stmt.lstrip()
    w = s[:6].upper()
    tbl = ''
    toks = s.replace('\n', ' ').split()
    try:
        if w == 'INSERT':
            tbl = toks[2]
        elif w == 'UPDATE':
            tbl = toks[1]
        elif w == 'DELETE':
            tbl = toks[2]
        elif w == 'SELECT':
            i = [t.upper() for t in toks].index('FROM')
            tbl = toks[i + 1]
    except Exception:
        pass
    return '%s %s' % (w.strip(), tbl.strip('"`(),'))


class Injector(object):
    def __init__(self, app):
        self.app = app
        self.ctl = sched.Controller.get(app)
        _no_retry_sleep()

    def run(self, call, fault=None):
        """Run one request (call = (method, path, headers, body) or a
        callable) with an optional fault {kind, k}.  Returns dict with
        statements (classes), result, error, post_crash_statements."""
        ctl = self.ctl
        log = []
        state = {'fired': False, 'after': 0, 'commits': 0, 'dead': False}

        faults = [] if fault is None else (fault if isinstance(fault, list) else [fault])
        pending = [dict(f) for f in faults]
        state['nseen'] = 0

        def stmt_hook(r, conn, cursor, statement, parameters=None):
            cls = _classify(statement)
            if state['dead']:
                state['after'] += 1
                if not statement.lstrip().upper().startswith('ROLLBACK'):
                    state['after_bad'] = cls
                return
            state['nseen'] += 1
            log.append(cls)
            f = None
            for cand in pending:
                if cand['k'] == state['nseen']:
                    f = cand
                    break
            if f is None:
                return
            kind = f['kind']
            if kind == 'duplicate' and cls != 'INSERT placement_aggregates':
                # the duplicate-key race the property names: an aggregate being
                # recorded for the first time.  (Elsewhere a duplicate key is
                # not a fault but the answer "it exists", which the code
                # believes; that belief is exercised by the real races of the
                # concurrency engine.)
                return
            if kind == 'deadlock_rb' and cls.startswith('BEGIN'):
                return          # nothing to roll back yet
            pending.remove(f)
            state['fired'] = True
            log.pop()              # the statement does not run
            state['at'] = (state.get('at') + ' + ' if state.get('at') else '') + cls
            if kind == 'crash':
                state['dead'] = True
                raise Crash()
            if kind == 'deadlock':
                raise db_exc.DBDeadlock()
            if kind == 'deadlock_rb':
                cursor.execute('ROLLBACK')
                cursor.execute('BEGIN')
                raise db_exc.DBDeadlock()
            if kind == 'duplicate':
                # a duplicate-key error means that the row is there: somebody
                # else inserted it first.  Let the row exist, then fail.
                cursor.execute(statement, parameters)
                raise db_exc.DBDuplicateEntry(columns=['uuid'])
            if kind == 'generic':
                raise db_exc.DBError(Exception('injected'))
            if kind == 'conn':
                raise db_exc.DBConnectionError(Exception('injected'))
            raise ValueError(kind)

        def commit_hook(r, what, kind):
            if what == 'commit' and not state['dead']:
                state['commits'] += 1

        ctl.stmt_hook = stmt_hook
        ctl.commit_hook = commit_hook
        try:
            res, executed = sched.run_schedule(self.app, {'A': call}, [])
        finally:
            ctl.stmt_hook = None
            ctl.commit_hook = None
        r = res['A']
        return {'statements': log, 'result': r['result'], 'error': r['error'],
                'fired': state['fired'], 'at': state.get('at'),
                'commits': state['commits'],
                'after_crash_statements': state['after'],
                'after_crash_bad': state.get('after_bad'),
                'executed': executed}


def wellformed_error(status, hdrs, body, v):
    """The errors-guideline shape of a JSON error body."""
    try:
        j = json.loads(body)
        e = j['errors'][0]
        ok = (isinstance(e.get('status'), int) and e['status'] == status and
              isinstance(e.get('title'), str) and 'detail' in e and
              'request_id' in e)
        if v is not None and v >= 23 and 400 <= status < 500:
            ok = ok and isinstance(e.get('code'), str)
        return bool(ok)
    except Exception:
        return False


def validate(lines, timeout=3600):
    d = tempfile.mkdtemp(prefix='pv-fault-')
    try:
        path = os.path.join(d, 'faults.ndjson')
        with open(path, 'w') as f:
            for ln in lines:
                f.write(json.dumps(ln, sort_keys=True))
                f.write('\n')
        rc, out, wall = tlc.run('TraceFault', 'TraceFault.cfg',
                                env={'TRACE_FILE': path}, workers=1,
                                timeout=timeout, metadir=os.path.join(d, 'm'))
        verdicts = {}
        for v in tlc.printed_values(out, 'FV'):
            verdicts[v[1]] = sorted(v[2])
        if len(verdicts) != len(lines) or 'Error:' in out:
            raise tlc.TLCError('TraceFault judged %d of %d lines (rc %s)\n%s'
                               % (len(verdicts), len(lines), rc, out[-3000:]))
        return verdicts, wall
    finally:
        shutil.rmtree(d, ignore_errors=True)


# ---------------------------------------------------------------------------
# the write corpus

def build_corpus(app):
    """Prepare the start states (snapshots) and the requests of the write
    corpus.  Returns list of items {label, snap, req | sync}."""
    import random
    from pv import trace, scenarios, concur
    from pv.scenarios import INV
    rec = trace.Recorder(app)
    rec.new_history()
    s = scenarios.S(rec, random.Random(0))
    concur.base_state(s)
    s.mk('p4', 'p2')
    s.do(op='rc_post', v=39, name='CUSTOM_RC3')
    s.do(op='trait_put', v=39, name='CUSTOM_T3')
    # a provider nobody uses, with inventory, traits and aggregates of its own
    s.mk('p6')
    s.invs('p6', VCPU=2, DISK_GB=10)
    s.do(op='rp_traits_put', v=39, u='p6', gen=s.gen('p6'), traits=['CUSTOM_T1', 'HW_CPU_X86_AVX'])
    s.do(op='agg_put', v=39, u='p6', gen=s.gen('p6'), aggs=['agg1', 'agg2'])
    app.snapshot('fbase')
    env = dict(trace.ENV)
    g = s.gen
    items = []

    def add(label, **r):
        if r['op'] in ('alloc_put', 'alloc_post', 'reshape'):
            r['env'] = env
        items.append({'label': label, 'snap': 'fbase', 'req': r})
    e = s.entry('c1', {'p1': {'VCPU': 2}, 'p2': {'DISK_GB': 3}}, cgen=-1,
                project='brand-new-project', user='brand-new-user', ctype='BRANDNEW')
    add('put new consumer, new project/user/type', op='alloc_put', v=39, **e)
    add('put existing consumer, changed project/user/type, two providers', op='alloc_put', v=39,
        **s.entry('c3', {'p1': {'VCPU': 2}, 'p2': {'DISK_GB': 5}}, project='proj2', user='user2', ctype='MIGRATION'))
    add('put empty (remove)', op='alloc_put', v=39, **s.entry('c3', {}))
    add('put empty for a consumer that does not exist', op='alloc_put', v=39, **s.entry('c2', {}, cgen=-1))
    add('post empty for a consumer that does not exist, with another one', op='alloc_post', v=39,
        entries=[s.entry('c2', {}, cgen=-1), s.entry('c1', {'p1': {'VCPU': 1}}, cgen=-1)])
    add('put naming an unknown provider for a new consumer', op='alloc_put', v=39,
        **s.entry('c2', {'p9': {'VCPU': 1}}, cgen=-1))
    add('put rejected for capacity, new consumer', op='alloc_put', v=39,
        **s.entry('c2', {'p1': {'VCPU': 2000}}, cgen=-1))
    add('put below 1.8 (placeholder project)', op='alloc_put', v=7, **s.entry('c2', {'p1': {'VCPU': 1}}, cgen=-1))
    add('post two consumers', op='alloc_post', v=39,
        entries=[s.entry('c1', {'p1': {'VCPU': 1}}, cgen=-1),
                 s.entry('c3', {'p3': {'DISK_GB': 6, 'VCPU': 1}}, project='proj3')])
    add('post emptying one consumer and writing another (move)', op='alloc_post', v=39,
        entries=[s.entry('c3', {}), s.entry('c1', {'p1': {'VCPU': 1}, 'p3': {'DISK_GB': 2}}, cgen=-1)])
    add('post emptying two consumers', op='alloc_post', v=39,
        entries=[s.entry('c3', {}), s.entry('c4', {}, project='proj2', user='user2', ctype='MIGRATION')])
    add('reshape emptying one consumer and writing another', op='reshape', v=39,
        invs=[{'u': 'p3', 'gen': g('p3'), 'invs': [{'rc': 'VCPU', 'inv': INV(4)}, {'rc': 'DISK_GB', 'inv': INV(50)},
                                                   {'rc': 'MEMORY_MB', 'inv': INV(64)}]}],
        entries=[s.entry('c3', {}), s.entry('c1', {'p3': {'VCPU': 1}}, cgen=-1)])
    add('reshape moving a class to the child', op='reshape', v=39,
        invs=[{'u': 'p3', 'gen': g('p3'), 'invs': [{'rc': 'VCPU', 'inv': INV(4)}, {'rc': 'MEMORY_MB', 'inv': INV(64)}]},
              {'u': 'p4', 'gen': g('p4'), 'invs': [{'rc': 'DISK_GB', 'inv': INV(50)}]}],
        entries=[s.entry('c3', {'p1': {'VCPU': 1}, 'p4': {'DISK_GB': 5}})])
    add('put inventories', op='inv_put_all', v=39, u='p3', gen=g('p3'),
        invs=[{'rc': 'VCPU', 'inv': INV(8)}, {'rc': 'DISK_GB', 'inv': INV(60)}, {'rc': 'SRIOV_NET_VF', 'inv': INV(4)}])
    add('put inventory', op='inv_put', v=39, u='p3', rc='VCPU', gen=g('p3'), inv=INV(6))
    add('post inventory', op='inv_post', v=39, u='p2', rc='VCPU', inv=INV(2))
    add('delete inventory', op='inv_del', v=39, u='p3', rc='MEMORY_MB')
    add('delete inventories', op='inv_del_all', v=39, u='p2')
    add('put traits', op='rp_traits_put', v=39, u='p3', gen=g('p3'), traits=['CUSTOM_T1', 'STORAGE_DISK_SSD'])
    add('delete traits', op='rp_traits_del', v=39, u='p3')
    add('put aggregates (new uuids)', op='agg_put', v=39, u='p3', gen=g('p3'), aggs=['agg2', 'agg3'])
    add('put aggregates (one kept, one never seen)', op='agg_put', v=39, u='p3', gen=g('p3'), aggs=['agg1', 'agg5'])
    add('put aggregates (two never seen)', op='agg_put', v=39, u='p3', gen=g('p3'), aggs=['agg3', 'agg4'])
    add('put aggregates (legacy)', op='agg_put', v=18, u='p1', gen=-1, aggs=['agg4', 'agg1'])
    add('create provider under parent', op='rp_create', v=39, u='p5', name='p5', parent='p4')
    add('re-parent a subtree', op='rp_update', v=39, u='p2', name='p2-moved', parent='p3')
    add('un-parent', op='rp_update', v=39, u='p4', name='p4', parent='null')
    add('delete provider', op='rp_delete', v=39, u='p4')
    add('delete provider with inventories, traits and aggregates', op='rp_delete', v=39, u='p6')
    add('create class (POST)', op='rc_post', v=39, name='CUSTOM_RC1')
    add('create class (PUT)', op='rc_put', v=39, name='CUSTOM_RC2', newname='')
    add('rename class', op='rc_put', v=6, name='CUSTOM_RC3', newname='CUSTOM_RC4')
    add('delete class', op='rc_del', v=39, name='CUSTOM_RC3')
    add('create trait', op='trait_put', v=39, name='CUSTOM_T2')
    add('delete trait', op='trait_del', v=39, name='CUSTOM_T3')
    add('delete allocations', op='alloc_del', v=39, c='c4')
    # requests that are refused for their own reason: an error on the way must not change that
    add('post with a stale consumer generation', op='alloc_post', v=39,
        entries=[s.entry('c3', {'p1': {'VCPU': 1}}, cgen=s.cgen('c3') + 3), s.entry('c1', {'p1': {'VCPU': 1}}, cgen=-1)])
    add('reshape refused for capacity, new consumer', op='reshape', v=39,
        invs=[{'u': 'p3', 'gen': g('p3'), 'invs': [{'rc': 'VCPU', 'inv': INV(4)}]}],
        entries=[s.entry('c1', {'p3': {'VCPU': 400}}, cgen=-1)])
    add('put inventories dropping a class in use', op='inv_put_all', v=39, u='p3', gen=g('p3'),
        invs=[{'rc': 'MEMORY_MB', 'inv': INV(64)}])
    add('put inventories with a stale generation', op='inv_put_all', v=39, u='p3', gen=g('p3') + 5,
        invs=[{'rc': 'VCPU', 'inv': INV(4)}])
    add('delete provider in use', op='rp_delete', v=39, u='p3')
    add('delete class in use', op='rc_del', v=39, name='VCPU')
    add('put traits naming an unknown trait', op='rp_traits_put', v=39, u='p3', gen=g('p3'), traits=['CUSTOM_T4'])
    add('create provider with a taken name', op='rp_create', v=39, u='p5', name='p1', parent='')
    # further successful kinds
    add('rename provider', op='rp_update', v=39, u='p3', name='p3-renamed', parent='')
    add('put aggregates removing all', op='agg_put', v=39, u='p3', gen=g('p3'), aggs=[])
    add('put below 1.28 on an existing consumer', op='alloc_put', v=20,
        **s.entry('c3', {'p1': {'VCPU': 2}}, project='proj3', user='user2'))
    add('post below 1.28 (two consumers)', op='alloc_post', v=13,
        entries=[s.entry('c3', {'p1': {'VCPU': 2}}), s.entry('c2', {'p2': {'DISK_GB': 2}}, cgen=-1)])
    # start-up synchronisation from a full, a partially and a not synchronised database
    items.append({'label': 'sync (fully synchronised)', 'snap': 'fbase', 'req': {'op': 'sync', 'v': 39}})
    from sqlalchemy import text
    with app.engine.connect() as conn:
        conn.execute(text("DELETE FROM traits WHERE name LIKE 'HW_GPU%' OR name LIKE 'COMPUTE_%'"))
        conn.execute(text("DELETE FROM resource_classes WHERE name IN ('VGPU', 'PCPU', 'FPGA')"))
        conn.commit()
    app.snapshot('fpartial')
    items.append({'label': 'sync (partially synchronised)', 'snap': 'fpartial', 'req': {'op': 'sync', 'v': 39}})
    app.wipe(sync=False)
    app.snapshot('fempty')
    items.append({'label': 'sync (empty database)', 'snap': 'fempty', 'req': {'op': 'sync', 'v': 39}})
    return items


def _call_for(app, req):
    if req['op'] == 'sync':
        def do_sync():
            app.sync()
            return (200, {}, b'')
        return do_sync
    return reqmod.render(req)


def worker(job):
    """job: {mode: 'fault'|'crash', indices, kinds, pairs}"""
    from pv.app import get_app
    app = get_app()
    items = build_corpus(app)
    inj = Injector(app)
    lines = []
    meta = {}
    nclean = {}
    for idx in job['indices']:
        it = items[idx]
        req = it['req']
        if job.get('only_ops') and req['op'] not in job['only_ops']:
            continue
        app.restore(it['snap'])
        app.reset_caches()
        db0, _ = project.dump(app.engine)
        clean = inj.run(_call_for(app, req))
        n = len(clean['statements'])
        nclean[it['label']] = {'statements': n, 'status': clean['result'][0] if clean['result'] else None,
                               'classes': clean['statements']}
        plans = []
        if job['mode'] == 'crash':
            plans = [[{'kind': 'crash', 'k': k}] for k in range(1, n + 1)]
        else:
            for k in range(1, n + 1):
                for kind in job['kinds']:
                    if kind == 'duplicate' and clean['statements'][k - 1] != 'INSERT placement_aggregates':
                        continue
                    plans.append([{'kind': kind, 'k': k}])
        if job['mode'] == 'fault' and job.get('pairs') and req['op'] in ('alloc_put', 'alloc_post', 'reshape', 'sync', 'agg_put'):
            prnd = __import__('random').Random(idx * 7 + 1)
            combos = [('deadlock', 'deadlock'), ('deadlock', 'generic'), ('deadlock_rb', 'deadlock'), ('deadlock', 'deadlock_rb')]
            allpairs = [(k1, k2) for k1 in range(1, n + 1) for k2 in range(k1 + 1, n + 6)]
            prnd.shuffle(allpairs)
            for (k1, k2) in allpairs[:job['pairs']]:
                a, b = prnd.choice(combos)
                plans.append([{'kind': a, 'k': k1}, {'kind': b, 'k': k2}])
        for plan in plans:
            f = plan[0]
            app.restore(it['snap'])
            app.reset_caches()
            out = inj.run(_call_for(app, req), plan if len(plan) > 1 else f)
            final, extra = project.dump(app.engine)
            lid = len(lines) + 1
            if out['error'] is not None and not isinstance(out['error'], Crash) \
                    and req['op'] == 'sync' and isinstance(out['error'], Exception):
                # start-up synchronisation is not an HTTP request: failing
                # with an exception (the service does not start) is its error
                resp = {'status': 500, 'code': type(out['error']).__name__, 'body': reqmod.NOBODY}
                wf = True
            elif out['error'] is not None and not isinstance(out['error'], Crash):
                resp = {'status': 599, 'code': type(out['error']).__name__, 'body': reqmod.NOBODY}
                wf = False
            elif out['result'] is None:
                resp = {'status': 0, 'code': 'crashed', 'body': reqmod.NOBODY}
                wf = True
            else:
                st, h, b = out['result']
                try:
                    resp = reqmod.parse(req, st, h, b)
                except Exception:
                    resp = {'status': st, 'code': '', 'body': {'unparsable': True}}
                wf = st < 400 or wellformed_error(st, h, b, req.get('v'))
            restart_ok = True
            if req['op'] == 'sync' and resp['status'] >= 500 and out['error'] is not None \
                    and not isinstance(out['error'], Crash):
                # the failed start-up is followed by another one in the same
                # process, as a WSGI server does: nothing is reset in between
                from placement import deploy
                try:
                    deploy.update_database(app.conf)
                    _f2, extra2 = project.dump(app.engine)
                    restart_ok = bool(extra2['std_classes_ok'] and extra2['std_traits_ok'])
                except Exception:
                    restart_ok = False
            lines.append({'id': lid, 'mode': job['mode'], 'db0': db0, 'req': req, 'restart_ok': restart_ok,
                          'fault': {'kind': '+'.join(x['kind'] for x in plan), 'k': f['k'],
                                    'k2': plan[1]['k'] if len(plan) > 1 else 0, 'at': out['at'] or ''},
                          'resp': resp, 'wellformed': wf, 'final': final,
                          'std_ok': bool(extra['std_classes_ok'] and extra['std_traits_ok']),
                          'statements_after_crash': 1 if out['after_crash_bad'] else 0})
            meta[lid] = {'label': it['label'], 'fired': out['fired'],
                         'nstmts': len(out['statements'])}
    verdicts, wall = validate(lines) if lines else ({}, 0)
    bad = []
    outcomes = {}
    fired = 0
    for ln in lines:
        m = meta[ln['id']]
        fired += 1 if m['fired'] else 0
        key = '%s | %s@%s -> %s' % (m['label'], ln['fault']['kind'], ln['fault']['at'], ln['resp']['status'])
        outcomes[key] = outcomes.get(key, 0) + 1
        v = verdicts[ln['id']]
        if v:
            bad.append({'label': m['label'], 'fault': ln['fault'], 'monitors': v,
                        'status': ln['resp']['status'], 'code': ln['resp']['code'],
                        'req': ln['req'], 'db0': ln['db0'], 'final': ln['final'],
                        'statements_reexecuted': m['nstmts'] - nclean[m['label']]['statements']})
    return {'n': len(lines), 'fired': fired, 'bad': bad, 'outcomes': outcomes,
            'clean': nclean, 't_tlc': wall,
            'sample': [{'request': meta[1]['label'], 'fault': lines[0]['fault'],
                        'status': lines[0]['resp']['status']}] if lines else []}


def corpus_for_model():
    """(label, db0, req) of the corpus requests that start from the common
    base state, for the single-request run of Tx.tla."""
    from pv.app import get_app
    app = get_app()
    items = build_corpus(app)
    app.restore('fbase')
    db0, _ = project.dump(app.engine)
    return len(items), [(it['label'], db0, it['req']) for it in items
                        if it['snap'] == 'fbase' and it['req']['op'] != 'sync']
