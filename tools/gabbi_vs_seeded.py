#!/usr/bin/env python3
"""How many of the seeded changes does trace validation of the repository's
own gabbi corpus catch on its own?  gabbi_vs_seeded.py <worktree> [ids...]
(run with PV_REPO=<worktree> set by this script; /repo is not touched)."""
import json, os, subprocess, sys
ROOT = os.path.dirname(os.path.dirname(os.path.abspath(__file__)))
tree = sys.argv[1]
ids = sys.argv[2:] or sorted(d for d in os.listdir(os.path.join(ROOT, 'seeded')) if d.startswith('C'))
DRIVER = r'''
import os, sys, json, multiprocessing as mp
from pv import gabbitrace
if __name__ == '__main__':
    files = sorted(f for f in os.listdir(gabbitrace.GABBITS) if f.endswith('.yaml'))
    nw = 8
    with mp.get_context('spawn').Pool(nw) as pool:
        a = pool.map(gabbitrace.worker, [{'files': files[w::nw]} for w in range(nw)], chunksize=1)
        b = pool.map(gabbitrace.cand_worker, [{'files': files[w::nw]} for w in range(nw)], chunksize=1)
    kinds = {}
    for r in a:
        for x in r['bad']:
            k = 'api:%s:%s' % (x['line']['req']['op'], ','.join(x['verdict']['diff'] + x['verdict']['mon'] + x['extra_bad']))
            kinds[k] = kinds.get(k, 0) + 1
    for r in b:
        for x in r['bad']:
            k = 'cand:%s:%s' % (x['kind'], ','.join(x['monitors']))
            kinds[k] = kinds.get(k, 0) + 1
    print('RESULT ' + json.dumps(kinds))
'''
open('/tmp/pv_gabbi_driver.py', 'w').write(DRIVER)
env = dict(os.environ, PV_REPO=tree, PYTHONPATH=ROOT, PYTHONHASHSEED='0', PLACEMENT_VERIF='1')
def sh(cmd, **kw):
    return subprocess.run(cmd, shell=True, stdout=subprocess.PIPE, stderr=subprocess.STDOUT, **kw)
out = {}
for mid in ids:
    p = os.path.join(ROOT, 'seeded', mid, 'patch.diff')
    if sh('git -C %s apply %s' % (tree, p)).returncode != 0:
        print(mid, 'does not apply'); continue
    try:
        r = sh('/venv/bin/python /tmp/pv_gabbi_driver.py', env=env, cwd=ROOT)
    finally:
        sh('git -C %s checkout -- .' % tree)
    o = r.stdout.decode('utf-8', 'replace')
    res = [l for l in o.splitlines() if l.startswith('RESULT ')]
    kinds = json.loads(res[-1][7:]) if res else {'ERROR': o[-300:]}
    out[mid] = kinds
    print(mid, 'CAUGHT' if kinds else '-', json.dumps(kinds)[:300], flush=True)
print('%d of %d caught by the gabbi traces alone' % (sum(1 for v in out.values() if v), len(out)))
