---- MODULE TxRaces_TTrace_1790901075 ----
EXTENDS Sequences, TLCExt, Toolbox, Naturals, TLC, TxRaces

_expression ==
    LET TxRaces_TEExpression == INSTANCE TxRaces_TEExpression
    IN TxRaces_TEExpression!expression
----

_trace ==
    LET TxRaces_TETrace == INSTANCE TxRaces_TETrace
    IN TxRaces_TETrace!trace
----

_inv ==
    ~(
        TLCGet("level") = Len(_TETrace)
        /\
        reqs = (<<[op |-> "alloc_del", c |-> "c3", v |-> 39], [op |-> "alloc_put", c |-> "c3", project |-> "proj1", user |-> "user1", cgen |-> 1, ctype |-> "INSTANCE", allocs |-> <<[u |-> "p1", res |-> <<[rc |-> "VCPU", amt |-> 2]>>]>>, v |-> 39, env |-> [iproj |-> "00000000-0000-0000-0000-000000000000", iuser |-> "00000000-0000-0000-0000-000000000000"]]>>)
        /\
        loc = (<<[cgen |-> <<>>, pgen |-> <<>>, created |-> {}, i |-> 1], [cgen |-> [c3 |-> 1], pgen |-> [p1 |-> 2], created |-> {}, i |-> 1]>>)
        /\
        hist = (<<[who |-> 1, pre |-> [rp |-> [p1 |-> [gen |-> 2, name |-> "p1", parent |-> "", root |-> "p1"], p2 |-> [gen |-> 1, name |-> "p2", parent |-> "p1", root |-> "p1"], p3 |-> [gen |-> 5, name |-> "p3", parent |-> "", root |-> "p3"]], inv |-> [p1 |-> [VCPU |-> [total |-> 8, reserved |-> 0, num |-> 2, den |-> 1, min_unit |-> 1, max_unit |-> 2147483647, step_size |-> 1], MEMORY_MB |-> [total |-> 1024, reserved |-> 0, num |-> 1, den |-> 1, min_unit |-> 1, max_unit |-> 2147483647, step_size |-> 1]], p2 |-> [DISK_GB |-> [total |-> 100, reserved |-> 0, num |-> 1, den |-> 1, min_unit |-> 1, max_unit |-> 2147483647, step_size |-> 1]], p3 |-> [VCPU |-> [total |-> 4, reserved |-> 0, num |-> 1, den |-> 1, min_unit |-> 1, max_unit |-> 2147483647, step_size |-> 1], DISK_GB |-> [total |-> 50, reserved |-> 10, num |-> 1, den |-> 1, min_unit |-> 1, max_unit |-> 2147483647, step_size |-> 1]]], alloc |-> [c3 |-> [p1 |-> [VCPU |-> 1], p3 |-> [DISK_GB |-> 5]], c4 |-> [p3 |-> [VCPU |-> 1]]], cons |-> [c3 |-> [project |-> "proj1", user |-> "user1", ctype |-> "INSTANCE", gen |-> 1], c4 |-> [project |-> "proj2", user |-> "user2", ctype |-> "MIGRATION", gen |-> 1]], traits |-> [p1 |-> {}, p2 |-> {}, p3 |-> {"HW_CPU_X86_AVX"}], aggs |-> [p1 |-> {}, p2 |-> {}, p3 |-> {"agg1"}], classes |-> [], ctraits |-> {"CUSTOM_T1"}], post |-> [rp |-> [p1 |-> [gen |-> 2, name |-> "p1", parent |-> "", root |-> "p1"], p2 |-> [gen |-> 1, name |-> "p2", parent |-> "p1", root |-> "p1"], p3 |-> [gen |-> 5, name |-> "p3", parent |-> "", root |-> "p3"]], inv |-> [p1 |-> [VCPU |-> [total |-> 8, reserved |-> 0, num |-> 2, den |-> 1, min_unit |-> 1, max_unit |-> 2147483647, step_size |-> 1], MEMORY_MB |-> [total |-> 1024, reserved |-> 0, num |-> 1, den |-> 1, min_unit |-> 1, max_unit |-> 2147483647, step_size |-> 1]], p2 |-> [DISK_GB |-> [total |-> 100, reserved |-> 0, num |-> 1, den |-> 1, min_unit |-> 1, max_unit |-> 2147483647, step_size |-> 1]], p3 |-> [VCPU |-> [total |-> 4, reserved |-> 0, num |-> 1, den |-> 1, min_unit |-> 1, max_unit |-> 2147483647, step_size |-> 1], DISK_GB |-> [total |-> 50, reserved |-> 10, num |-> 1, den |-> 1, min_unit |-> 1, max_unit |-> 2147483647, step_size |-> 1]]], alloc |-> [c4 |-> [p3 |-> [VCPU |-> 1]]], cons |-> [c4 |-> [project |-> "proj2", user |-> "user2", ctype |-> "MIGRATION", gen |-> 1]], traits |-> [p1 |-> {}, p2 |-> {}, p3 |-> {"HW_CPU_X86_AVX"}], aggs |-> [p1 |-> {}, p2 |-> {}, p3 |-> {"agg1"}], classes |-> [], ctraits |-> {"CUSTOM_T1"}]]>>)
        /\
        db0 = ([rp |-> [p1 |-> [gen |-> 2, name |-> "p1", parent |-> "", root |-> "p1"], p2 |-> [gen |-> 1, name |-> "p2", parent |-> "p1", root |-> "p1"], p3 |-> [gen |-> 5, name |-> "p3", parent |-> "", root |-> "p3"]], inv |-> [p1 |-> [VCPU |-> [total |-> 8, reserved |-> 0, num |-> 2, den |-> 1, min_unit |-> 1, max_unit |-> 2147483647, step_size |-> 1], MEMORY_MB |-> [total |-> 1024, reserved |-> 0, num |-> 1, den |-> 1, min_unit |-> 1, max_unit |-> 2147483647, step_size |-> 1]], p2 |-> [DISK_GB |-> [total |-> 100, reserved |-> 0, num |-> 1, den |-> 1, min_unit |-> 1, max_unit |-> 2147483647, step_size |-> 1]], p3 |-> [VCPU |-> [total |-> 4, reserved |-> 0, num |-> 1, den |-> 1, min_unit |-> 1, max_unit |-> 2147483647, step_size |-> 1], DISK_GB |-> [total |-> 50, reserved |-> 10, num |-> 1, den |-> 1, min_unit |-> 1, max_unit |-> 2147483647, step_size |-> 1]]], alloc |-> [c3 |-> [p1 |-> [VCPU |-> 1], p3 |-> [DISK_GB |-> 5]], c4 |-> [p3 |-> [VCPU |-> 1]]], cons |-> [c3 |-> [project |-> "proj1", user |-> "user1", ctype |-> "INSTANCE", gen |-> 1], c4 |-> [project |-> "proj2", user |-> "user2", ctype |-> "MIGRATION", gen |-> 1]], traits |-> [p1 |-> {}, p2 |-> {}, p3 |-> {"HW_CPU_X86_AVX"}], aggs |-> [p1 |-> {}, p2 |-> {}, p3 |-> {"agg1"}], classes |-> [], ctraits |-> {"CUSTOM_T1"}])
        /\
        pc = (<<"done", "main">>)
        /\
        resp = (<<[status |-> 204, code |-> "", body |-> [nobody |-> TRUE]], [status |-> 0, code |-> "", body |-> [nobody |-> TRUE]]>>)
        /\
        rid = (30)
        /\
        db = ([rp |-> [p1 |-> [gen |-> 2, name |-> "p1", parent |-> "", root |-> "p1"], p2 |-> [gen |-> 1, name |-> "p2", parent |-> "p1", root |-> "p1"], p3 |-> [gen |-> 5, name |-> "p3", parent |-> "", root |-> "p3"]], inv |-> [p1 |-> [VCPU |-> [total |-> 8, reserved |-> 0, num |-> 2, den |-> 1, min_unit |-> 1, max_unit |-> 2147483647, step_size |-> 1], MEMORY_MB |-> [total |-> 1024, reserved |-> 0, num |-> 1, den |-> 1, min_unit |-> 1, max_unit |-> 2147483647, step_size |-> 1]], p2 |-> [DISK_GB |-> [total |-> 100, reserved |-> 0, num |-> 1, den |-> 1, min_unit |-> 1, max_unit |-> 2147483647, step_size |-> 1]], p3 |-> [VCPU |-> [total |-> 4, reserved |-> 0, num |-> 1, den |-> 1, min_unit |-> 1, max_unit |-> 2147483647, step_size |-> 1], DISK_GB |-> [total |-> 50, reserved |-> 10, num |-> 1, den |-> 1, min_unit |-> 1, max_unit |-> 2147483647, step_size |-> 1]]], alloc |-> [c4 |-> [p3 |-> [VCPU |-> 1]]], cons |-> [c4 |-> [project |-> "proj2", user |-> "user2", ctype |-> "MIGRATION", gen |-> 1]], traits |-> [p1 |-> {}, p2 |-> {}, p3 |-> {"HW_CPU_X86_AVX"}], aggs |-> [p1 |-> {}, p2 |-> {}, p3 |-> {"agg1"}], classes |-> [], ctraits |-> {"CUSTOM_T1"}])
    )
----

_init ==
    /\ reqs = _TETrace[1].reqs
    /\ db = _TETrace[1].db
    /\ resp = _TETrace[1].resp
    /\ rid = _TETrace[1].rid
    /\ db0 = _TETrace[1].db0
    /\ pc = _TETrace[1].pc
    /\ hist = _TETrace[1].hist
    /\ loc = _TETrace[1].loc
----

_next ==
    /\ \E i,j \in DOMAIN _TETrace:
        /\ \/ /\ j = i + 1
              /\ i = TLCGet("level")
        /\ reqs  = _TETrace[i].reqs
        /\ reqs' = _TETrace[j].reqs
        /\ db  = _TETrace[i].db
        /\ db' = _TETrace[j].db
        /\ resp  = _TETrace[i].resp
        /\ resp' = _TETrace[j].resp
        /\ rid  = _TETrace[i].rid
        /\ rid' = _TETrace[j].rid
        /\ db0  = _TETrace[i].db0
        /\ db0' = _TETrace[j].db0
        /\ pc  = _TETrace[i].pc
        /\ pc' = _TETrace[j].pc
        /\ hist  = _TETrace[i].hist
        /\ hist' = _TETrace[j].hist
        /\ loc  = _TETrace[i].loc
        /\ loc' = _TETrace[j].loc

\* Uncomment the ASSUME below to write the states of the error trace
\* to the given file in Json format. Note that you can pass any tuple
\* to `JsonSerialize`. For example, a sub-sequence of _TETrace.
    \* ASSUME
    \*     LET J == INSTANCE Json
    \*         IN J!JsonSerialize("TxRaces_TTrace_1790901075.json", _TETrace)

=============================================================================

 Note that you can extract this module `TxRaces_TEExpression`
  to a dedicated file to reuse `expression` (the module in the 
  dedicated `TxRaces_TEExpression.tla` file takes precedence 
  over the module `TxRaces_TEExpression` below).

---- MODULE TxRaces_TEExpression ----
EXTENDS Sequences, TLCExt, Toolbox, Naturals, TLC, TxRaces

expression == 
    [
        \* To hide variables of the `TxRaces` spec from the error trace,
        \* remove the variables below.  The trace will be written in the order
        \* of the fields of this record.
        reqs |-> reqs
        ,db |-> db
        ,resp |-> resp
        ,rid |-> rid
        ,db0 |-> db0
        ,pc |-> pc
        ,hist |-> hist
        ,loc |-> loc
        
        \* Put additional constant-, state-, and action-level expressions here:
        \* ,_stateNumber |-> _TEPosition
        \* ,_reqsUnchanged |-> reqs = reqs'
        
        \* Format the `reqs` variable as Json value.
        \* ,_reqsJson |->
        \*     LET J == INSTANCE Json
        \*     IN J!ToJson(reqs)
        
        \* Lastly, you may build expressions over arbitrary sets of states by
        \* leveraging the _TETrace operator.  For example, this is how to
        \* count the number of times a spec variable changed up to the current
        \* state in the trace.
        \* ,_reqsModCount |->
        \*     LET F[s \in DOMAIN _TETrace] ==
        \*         IF s = 1 THEN 0
        \*         ELSE IF _TETrace[s].reqs # _TETrace[s-1].reqs
        \*             THEN 1 + F[s-1] ELSE F[s-1]
        \*     IN F[_TEPosition - 1]
    ]

=============================================================================



Parsing and semantic processing can take forever if the trace below is long.
 In this case, it is advised to uncomment the module below to deserialize the
 trace from a generated binary file.

\*
\*---- MODULE TxRaces_TETrace ----
\*EXTENDS IOUtils, TLC, TxRaces
\*
\*trace == IODeserialize("TxRaces_TTrace_1790901075.bin", TRUE)
\*
\*=============================================================================
\*

---- MODULE TxRaces_TETrace ----
EXTENDS TLC, TxRaces

trace == 
    <<
    ([reqs |-> <<[op |-> "alloc_del", c |-> "c3", v |-> 39], [op |-> "alloc_put", c |-> "c3", project |-> "proj1", user |-> "user1", cgen |-> 1, ctype |-> "INSTANCE", allocs |-> <<[u |-> "p1", res |-> <<[rc |-> "VCPU", amt |-> 2]>>]>>, v |-> 39, env |-> [iproj |-> "00000000-0000-0000-0000-000000000000", iuser |-> "00000000-0000-0000-0000-000000000000"]]>>,loc |-> <<[cgen |-> <<>>, pgen |-> <<>>, created |-> {}, i |-> 1], [cgen |-> <<>>, pgen |-> <<>>, created |-> {}, i |-> 1]>>,hist |-> <<>>,db0 |-> [rp |-> [p1 |-> [gen |-> 2, name |-> "p1", parent |-> "", root |-> "p1"], p2 |-> [gen |-> 1, name |-> "p2", parent |-> "p1", root |-> "p1"], p3 |-> [gen |-> 5, name |-> "p3", parent |-> "", root |-> "p3"]], inv |-> [p1 |-> [VCPU |-> [total |-> 8, reserved |-> 0, num |-> 2, den |-> 1, min_unit |-> 1, max_unit |-> 2147483647, step_size |-> 1], MEMORY_MB |-> [total |-> 1024, reserved |-> 0, num |-> 1, den |-> 1, min_unit |-> 1, max_unit |-> 2147483647, step_size |-> 1]], p2 |-> [DISK_GB |-> [total |-> 100, reserved |-> 0, num |-> 1, den |-> 1, min_unit |-> 1, max_unit |-> 2147483647, step_size |-> 1]], p3 |-> [VCPU |-> [total |-> 4, reserved |-> 0, num |-> 1, den |-> 1, min_unit |-> 1, max_unit |-> 2147483647, step_size |-> 1], DISK_GB |-> [total |-> 50, reserved |-> 10, num |-> 1, den |-> 1, min_unit |-> 1, max_unit |-> 2147483647, step_size |-> 1]]], alloc |-> [c3 |-> [p1 |-> [VCPU |-> 1], p3 |-> [DISK_GB |-> 5]], c4 |-> [p3 |-> [VCPU |-> 1]]], cons |-> [c3 |-> [project |-> "proj1", user |-> "user1", ctype |-> "INSTANCE", gen |-> 1], c4 |-> [project |-> "proj2", user |-> "user2", ctype |-> "MIGRATION", gen |-> 1]], traits |-> [p1 |-> {}, p2 |-> {}, p3 |-> {"HW_CPU_X86_AVX"}], aggs |-> [p1 |-> {}, p2 |-> {}, p3 |-> {"agg1"}], classes |-> [], ctraits |-> {"CUSTOM_T1"}],pc |-> <<"start", "start">>,resp |-> <<[status |-> 0, code |-> "", body |-> [nobody |-> TRUE]], [status |-> 0, code |-> "", body |-> [nobody |-> TRUE]]>>,rid |-> 30,db |-> [rp |-> [p1 |-> [gen |-> 2, name |-> "p1", parent |-> "", root |-> "p1"], p2 |-> [gen |-> 1, name |-> "p2", parent |-> "p1", root |-> "p1"], p3 |-> [gen |-> 5, name |-> "p3", parent |-> "", root |-> "p3"]], inv |-> [p1 |-> [VCPU |-> [total |-> 8, reserved |-> 0, num |-> 2, den |-> 1, min_unit |-> 1, max_unit |-> 2147483647, step_size |-> 1], MEMORY_MB |-> [total |-> 1024, reserved |-> 0, num |-> 1, den |-> 1, min_unit |-> 1, max_unit |-> 2147483647, step_size |-> 1]], p2 |-> [DISK_GB |-> [total |-> 100, reserved |-> 0, num |-> 1, den |-> 1, min_unit |-> 1, max_unit |-> 2147483647, step_size |-> 1]], p3 |-> [VCPU |-> [total |-> 4, reserved |-> 0, num |-> 1, den |-> 1, min_unit |-> 1, max_unit |-> 2147483647, step_size |-> 1], DISK_GB |-> [total |-> 50, reserved |-> 10, num |-> 1, den |-> 1, min_unit |-> 1, max_unit |-> 2147483647, step_size |-> 1]]], alloc |-> [c3 |-> [p1 |-> [VCPU |-> 1], p3 |-> [DISK_GB |-> 5]], c4 |-> [p3 |-> [VCPU |-> 1]]], cons |-> [c3 |-> [project |-> "proj1", user |-> "user1", ctype |-> "INSTANCE", gen |-> 1], c4 |-> [project |-> "proj2", user |-> "user2", ctype |-> "MIGRATION", gen |-> 1]], traits |-> [p1 |-> {}, p2 |-> {}, p3 |-> {"HW_CPU_X86_AVX"}], aggs |-> [p1 |-> {}, p2 |-> {}, p3 |-> {"agg1"}], classes |-> [], ctraits |-> {"CUSTOM_T1"}]]),
    ([reqs |-> <<[op |-> "alloc_del", c |-> "c3", v |-> 39], [op |-> "alloc_put", c |-> "c3", project |-> "proj1", user |-> "user1", cgen |-> 1, ctype |-> "INSTANCE", allocs |-> <<[u |-> "p1", res |-> <<[rc |-> "VCPU", amt |-> 2]>>]>>, v |-> 39, env |-> [iproj |-> "00000000-0000-0000-0000-000000000000", iuser |-> "00000000-0000-0000-0000-000000000000"]]>>,loc |-> <<[cgen |-> <<>>, pgen |-> <<>>, created |-> {}, i |-> 1], [cgen |-> <<>>, pgen |-> <<>>, created |-> {}, i |-> 1]>>,hist |-> <<>>,db0 |-> [rp |-> [p1 |-> [gen |-> 2, name |-> "p1", parent |-> "", root |-> "p1"], p2 |-> [gen |-> 1, name |-> "p2", parent |-> "p1", root |-> "p1"], p3 |-> [gen |-> 5, name |-> "p3", parent |-> "", root |-> "p3"]], inv |-> [p1 |-> [VCPU |-> [total |-> 8, reserved |-> 0, num |-> 2, den |-> 1, min_unit |-> 1, max_unit |-> 2147483647, step_size |-> 1], MEMORY_MB |-> [total |-> 1024, reserved |-> 0, num |-> 1, den |-> 1, min_unit |-> 1, max_unit |-> 2147483647, step_size |-> 1]], p2 |-> [DISK_GB |-> [total |-> 100, reserved |-> 0, num |-> 1, den |-> 1, min_unit |-> 1, max_unit |-> 2147483647, step_size |-> 1]], p3 |-> [VCPU |-> [total |-> 4, reserved |-> 0, num |-> 1, den |-> 1, min_unit |-> 1, max_unit |-> 2147483647, step_size |-> 1], DISK_GB |-> [total |-> 50, reserved |-> 10, num |-> 1, den |-> 1, min_unit |-> 1, max_unit |-> 2147483647, step_size |-> 1]]], alloc |-> [c3 |-> [p1 |-> [VCPU |-> 1], p3 |-> [DISK_GB |-> 5]], c4 |-> [p3 |-> [VCPU |-> 1]]], cons |-> [c3 |-> [project |-> "proj1", user |-> "user1", ctype |-> "INSTANCE", gen |-> 1], c4 |-> [project |-> "proj2", user |-> "user2", ctype |-> "MIGRATION", gen |-> 1]], traits |-> [p1 |-> {}, p2 |-> {}, p3 |-> {"HW_CPU_X86_AVX"}], aggs |-> [p1 |-> {}, p2 |-> {}, p3 |-> {"agg1"}], classes |-> [], ctraits |-> {"CUSTOM_T1"}],pc |-> <<"start", "consget">>,resp |-> <<[status |-> 0, code |-> "", body |-> [nobody |-> TRUE]], [status |-> 0, code |-> "", body |-> [nobody |-> TRUE]]>>,rid |-> 30,db |-> [rp |-> [p1 |-> [gen |-> 2, name |-> "p1", parent |-> "", root |-> "p1"], p2 |-> [gen |-> 1, name |-> "p2", parent |-> "p1", root |-> "p1"], p3 |-> [gen |-> 5, name |-> "p3", parent |-> "", root |-> "p3"]], inv |-> [p1 |-> [VCPU |-> [total |-> 8, reserved |-> 0, num |-> 2, den |-> 1, min_unit |-> 1, max_unit |-> 2147483647, step_size |-> 1], MEMORY_MB |-> [total |-> 1024, reserved |-> 0, num |-> 1, den |-> 1, min_unit |-> 1, max_unit |-> 2147483647, step_size |-> 1]], p2 |-> [DISK_GB |-> [total |-> 100, reserved |-> 0, num |-> 1, den |-> 1, min_unit |-> 1, max_unit |-> 2147483647, step_size |-> 1]], p3 |-> [VCPU |-> [total |-> 4, reserved |-> 0, num |-> 1, den |-> 1, min_unit |-> 1, max_unit |-> 2147483647, step_size |-> 1], DISK_GB |-> [total |-> 50, reserved |-> 10, num |-> 1, den |-> 1, min_unit |-> 1, max_unit |-> 2147483647, step_size |-> 1]]], alloc |-> [c3 |-> [p1 |-> [VCPU |-> 1], p3 |-> [DISK_GB |-> 5]], c4 |-> [p3 |-> [VCPU |-> 1]]], cons |-> [c3 |-> [project |-> "proj1", user |-> "user1", ctype |-> "INSTANCE", gen |-> 1], c4 |-> [project |-> "proj2", user |-> "user2", ctype |-> "MIGRATION", gen |-> 1]], traits |-> [p1 |-> {}, p2 |-> {}, p3 |-> {"HW_CPU_X86_AVX"}], aggs |-> [p1 |-> {}, p2 |-> {}, p3 |-> {"agg1"}], classes |-> [], ctraits |-> {"CUSTOM_T1"}]]),
    ([reqs |-> <<[op |-> "alloc_del", c |-> "c3", v |-> 39], [op |-> "alloc_put", c |-> "c3", project |-> "proj1", user |-> "user1", cgen |-> 1, ctype |-> "INSTANCE", allocs |-> <<[u |-> "p1", res |-> <<[rc |-> "VCPU", amt |-> 2]>>]>>, v |-> 39, env |-> [iproj |-> "00000000-0000-0000-0000-000000000000", iuser |-> "00000000-0000-0000-0000-000000000000"]]>>,loc |-> <<[cgen |-> <<>>, pgen |-> <<>>, created |-> {}, i |-> 1], [cgen |-> [c3 |-> 1], pgen |-> <<>>, created |-> {}, i |-> 1]>>,hist |-> <<>>,db0 |-> [rp |-> [p1 |-> [gen |-> 2, name |-> "p1", parent |-> "", root |-> "p1"], p2 |-> [gen |-> 1, name |-> "p2", parent |-> "p1", root |-> "p1"], p3 |-> [gen |-> 5, name |-> "p3", parent |-> "", root |-> "p3"]], inv |-> [p1 |-> [VCPU |-> [total |-> 8, reserved |-> 0, num |-> 2, den |-> 1, min_unit |-> 1, max_unit |-> 2147483647, step_size |-> 1], MEMORY_MB |-> [total |-> 1024, reserved |-> 0, num |-> 1, den |-> 1, min_unit |-> 1, max_unit |-> 2147483647, step_size |-> 1]], p2 |-> [DISK_GB |-> [total |-> 100, reserved |-> 0, num |-> 1, den |-> 1, min_unit |-> 1, max_unit |-> 2147483647, step_size |-> 1]], p3 |-> [VCPU |-> [total |-> 4, reserved |-> 0, num |-> 1, den |-> 1, min_unit |-> 1, max_unit |-> 2147483647, step_size |-> 1], DISK_GB |-> [total |-> 50, reserved |-> 10, num |-> 1, den |-> 1, min_unit |-> 1, max_unit |-> 2147483647, step_size |-> 1]]], alloc |-> [c3 |-> [p1 |-> [VCPU |-> 1], p3 |-> [DISK_GB |-> 5]], c4 |-> [p3 |-> [VCPU |-> 1]]], cons |-> [c3 |-> [project |-> "proj1", user |-> "user1", ctype |-> "INSTANCE", gen |-> 1], c4 |-> [project |-> "proj2", user |-> "user2", ctype |-> "MIGRATION", gen |-> 1]], traits |-> [p1 |-> {}, p2 |-> {}, p3 |-> {"HW_CPU_X86_AVX"}], aggs |-> [p1 |-> {}, p2 |-> {}, p3 |-> {"agg1"}], classes |-> [], ctraits |-> {"CUSTOM_T1"}],pc |-> <<"start", "provread">>,resp |-> <<[status |-> 0, code |-> "", body |-> [nobody |-> TRUE]], [status |-> 0, code |-> "", body |-> [nobody |-> TRUE]]>>,rid |-> 30,db |-> [rp |-> [p1 |-> [gen |-> 2, name |-> "p1", parent |-> "", root |-> "p1"], p2 |-> [gen |-> 1, name |-> "p2", parent |-> "p1", root |-> "p1"], p3 |-> [gen |-> 5, name |-> "p3", parent |-> "", root |-> "p3"]], inv |-> [p1 |-> [VCPU |-> [total |-> 8, reserved |-> 0, num |-> 2, den |-> 1, min_unit |-> 1, max_unit |-> 2147483647, step_size |-> 1], MEMORY_MB |-> [total |-> 1024, reserved |-> 0, num |-> 1, den |-> 1, min_unit |-> 1, max_unit |-> 2147483647, step_size |-> 1]], p2 |-> [DISK_GB |-> [total |-> 100, reserved |-> 0, num |-> 1, den |-> 1, min_unit |-> 1, max_unit |-> 2147483647, step_size |-> 1]], p3 |-> [VCPU |-> [total |-> 4, reserved |-> 0, num |-> 1, den |-> 1, min_unit |-> 1, max_unit |-> 2147483647, step_size |-> 1], DISK_GB |-> [total |-> 50, reserved |-> 10, num |-> 1, den |-> 1, min_unit |-> 1, max_unit |-> 2147483647, step_size |-> 1]]], alloc |-> [c3 |-> [p1 |-> [VCPU |-> 1], p3 |-> [DISK_GB |-> 5]], c4 |-> [p3 |-> [VCPU |-> 1]]], cons |-> [c3 |-> [project |-> "proj1", user |-> "user1", ctype |-> "INSTANCE", gen |-> 1], c4 |-> [project |-> "proj2", user |-> "user2", ctype |-> "MIGRATION", gen |-> 1]], traits |-> [p1 |-> {}, p2 |-> {}, p3 |-> {"HW_CPU_X86_AVX"}], aggs |-> [p1 |-> {}, p2 |-> {}, p3 |-> {"agg1"}], classes |-> [], ctraits |-> {"CUSTOM_T1"}]]),
    ([reqs |-> <<[op |-> "alloc_del", c |-> "c3", v |-> 39], [op |-> "alloc_put", c |-> "c3", project |-> "proj1", user |-> "user1", cgen |-> 1, ctype |-> "INSTANCE", allocs |-> <<[u |-> "p1", res |-> <<[rc |-> "VCPU", amt |-> 2]>>]>>, v |-> 39, env |-> [iproj |-> "00000000-0000-0000-0000-000000000000", iuser |-> "00000000-0000-0000-0000-000000000000"]]>>,loc |-> <<[cgen |-> <<>>, pgen |-> <<>>, created |-> {}, i |-> 1], [cgen |-> [c3 |-> 1], pgen |-> <<>>, created |-> {}, i |-> 1]>>,hist |-> <<[who |-> 1, pre |-> [rp |-> [p1 |-> [gen |-> 2, name |-> "p1", parent |-> "", root |-> "p1"], p2 |-> [gen |-> 1, name |-> "p2", parent |-> "p1", root |-> "p1"], p3 |-> [gen |-> 5, name |-> "p3", parent |-> "", root |-> "p3"]], inv |-> [p1 |-> [VCPU |-> [total |-> 8, reserved |-> 0, num |-> 2, den |-> 1, min_unit |-> 1, max_unit |-> 2147483647, step_size |-> 1], MEMORY_MB |-> [total |-> 1024, reserved |-> 0, num |-> 1, den |-> 1, min_unit |-> 1, max_unit |-> 2147483647, step_size |-> 1]], p2 |-> [DISK_GB |-> [total |-> 100, reserved |-> 0, num |-> 1, den |-> 1, min_unit |-> 1, max_unit |-> 2147483647, step_size |-> 1]], p3 |-> [VCPU |-> [total |-> 4, reserved |-> 0, num |-> 1, den |-> 1, min_unit |-> 1, max_unit |-> 2147483647, step_size |-> 1], DISK_GB |-> [total |-> 50, reserved |-> 10, num |-> 1, den |-> 1, min_unit |-> 1, max_unit |-> 2147483647, step_size |-> 1]]], alloc |-> [c3 |-> [p1 |-> [VCPU |-> 1], p3 |-> [DISK_GB |-> 5]], c4 |-> [p3 |-> [VCPU |-> 1]]], cons |-> [c3 |-> [project |-> "proj1", user |-> "user1", ctype |-> "INSTANCE", gen |-> 1], c4 |-> [project |-> "proj2", user |-> "user2", ctype |-> "MIGRATION", gen |-> 1]], traits |-> [p1 |-> {}, p2 |-> {}, p3 |-> {"HW_CPU_X86_AVX"}], aggs |-> [p1 |-> {}, p2 |-> {}, p3 |-> {"agg1"}], classes |-> [], ctraits |-> {"CUSTOM_T1"}], post |-> [rp |-> [p1 |-> [gen |-> 2, name |-> "p1", parent |-> "", root |-> "p1"], p2 |-> [gen |-> 1, name |-> "p2", parent |-> "p1", root |-> "p1"], p3 |-> [gen |-> 5, name |-> "p3", parent |-> "", root |-> "p3"]], inv |-> [p1 |-> [VCPU |-> [total |-> 8, reserved |-> 0, num |-> 2, den |-> 1, min_unit |-> 1, max_unit |-> 2147483647, step_size |-> 1], MEMORY_MB |-> [total |-> 1024, reserved |-> 0, num |-> 1, den |-> 1, min_unit |-> 1, max_unit |-> 2147483647, step_size |-> 1]], p2 |-> [DISK_GB |-> [total |-> 100, reserved |-> 0, num |-> 1, den |-> 1, min_unit |-> 1, max_unit |-> 2147483647, step_size |-> 1]], p3 |-> [VCPU |-> [total |-> 4, reserved |-> 0, num |-> 1, den |-> 1, min_unit |-> 1, max_unit |-> 2147483647, step_size |-> 1], DISK_GB |-> [total |-> 50, reserved |-> 10, num |-> 1, den |-> 1, min_unit |-> 1, max_unit |-> 2147483647, step_size |-> 1]]], alloc |-> [c4 |-> [p3 |-> [VCPU |-> 1]]], cons |-> [c4 |-> [project |-> "proj2", user |-> "user2", ctype |-> "MIGRATION", gen |-> 1]], traits |-> [p1 |-> {}, p2 |-> {}, p3 |-> {"HW_CPU_X86_AVX"}], aggs |-> [p1 |-> {}, p2 |-> {}, p3 |-> {"agg1"}], classes |-> [], ctraits |-> {"CUSTOM_T1"}]]>>,db0 |-> [rp |-> [p1 |-> [gen |-> 2, name |-> "p1", parent |-> "", root |-> "p1"], p2 |-> [gen |-> 1, name |-> "p2", parent |-> "p1", root |-> "p1"], p3 |-> [gen |-> 5, name |-> "p3", parent |-> "", root |-> "p3"]], inv |-> [p1 |-> [VCPU |-> [total |-> 8, reserved |-> 0, num |-> 2, den |-> 1, min_unit |-> 1, max_unit |-> 2147483647, step_size |-> 1], MEMORY_MB |-> [total |-> 1024, reserved |-> 0, num |-> 1, den |-> 1, min_unit |-> 1, max_unit |-> 2147483647, step_size |-> 1]], p2 |-> [DISK_GB |-> [total |-> 100, reserved |-> 0, num |-> 1, den |-> 1, min_unit |-> 1, max_unit |-> 2147483647, step_size |-> 1]], p3 |-> [VCPU |-> [total |-> 4, reserved |-> 0, num |-> 1, den |-> 1, min_unit |-> 1, max_unit |-> 2147483647, step_size |-> 1], DISK_GB |-> [total |-> 50, reserved |-> 10, num |-> 1, den |-> 1, min_unit |-> 1, max_unit |-> 2147483647, step_size |-> 1]]], alloc |-> [c3 |-> [p1 |-> [VCPU |-> 1], p3 |-> [DISK_GB |-> 5]], c4 |-> [p3 |-> [VCPU |-> 1]]], cons |-> [c3 |-> [project |-> "proj1", user |-> "user1", ctype |-> "INSTANCE", gen |-> 1], c4 |-> [project |-> "proj2", user |-> "user2", ctype |-> "MIGRATION", gen |-> 1]], traits |-> [p1 |-> {}, p2 |-> {}, p3 |-> {"HW_CPU_X86_AVX"}], aggs |-> [p1 |-> {}, p2 |-> {}, p3 |-> {"agg1"}], classes |-> [], ctraits |-> {"CUSTOM_T1"}],pc |-> <<"done", "provread">>,resp |-> <<[status |-> 204, code |-> "", body |-> [nobody |-> TRUE]], [status |-> 0, code |-> "", body |-> [nobody |-> TRUE]]>>,rid |-> 30,db |-> [rp |-> [p1 |-> [gen |-> 2, name |-> "p1", parent |-> "", root |-> "p1"], p2 |-> [gen |-> 1, name |-> "p2", parent |-> "p1", root |-> "p1"], p3 |-> [gen |-> 5, name |-> "p3", parent |-> "", root |-> "p3"]], inv |-> [p1 |-> [VCPU |-> [total |-> 8, reserved |-> 0, num |-> 2, den |-> 1, min_unit |-> 1, max_unit |-> 2147483647, step_size |-> 1], MEMORY_MB |-> [total |-> 1024, reserved |-> 0, num |-> 1, den |-> 1, min_unit |-> 1, max_unit |-> 2147483647, step_size |-> 1]], p2 |-> [DISK_GB |-> [total |-> 100, reserved |-> 0, num |-> 1, den |-> 1, min_unit |-> 1, max_unit |-> 2147483647, step_size |-> 1]], p3 |-> [VCPU |-> [total |-> 4, reserved |-> 0, num |-> 1, den |-> 1, min_unit |-> 1, max_unit |-> 2147483647, step_size |-> 1], DISK_GB |-> [total |-> 50, reserved |-> 10, num |-> 1, den |-> 1, min_unit |-> 1, max_unit |-> 2147483647, step_size |-> 1]]], alloc |-> [c4 |-> [p3 |-> [VCPU |-> 1]]], cons |-> [c4 |-> [project |-> "proj2", user |-> "user2", ctype |-> "MIGRATION", gen |-> 1]], traits |-> [p1 |-> {}, p2 |-> {}, p3 |-> {"HW_CPU_X86_AVX"}], aggs |-> [p1 |-> {}, p2 |-> {}, p3 |-> {"agg1"}], classes |-> [], ctraits |-> {"CUSTOM_T1"}]]),
    ([reqs |-> <<[op |-> "alloc_del", c |-> "c3", v |-> 39], [op |-> "alloc_put", c |-> "c3", project |-> "proj1", user |-> "user1", cgen |-> 1, ctype |-> "INSTANCE", allocs |-> <<[u |-> "p1", res |-> <<[rc |-> "VCPU", amt |-> 2]>>]>>, v |-> 39, env |-> [iproj |-> "00000000-0000-0000-0000-000000000000", iuser |-> "00000000-0000-0000-0000-000000000000"]]>>,loc |-> <<[cgen |-> <<>>, pgen |-> <<>>, created |-> {}, i |-> 1], [cgen |-> [c3 |-> 1], pgen |-> [p1 |-> 2], created |-> {}, i |-> 1]>>,hist |-> <<[who |-> 1, pre |-> [rp |-> [p1 |-> [gen |-> 2, name |-> "p1", parent |-> "", root |-> "p1"], p2 |-> [gen |-> 1, name |-> "p2", parent |-> "p1", root |-> "p1"], p3 |-> [gen |-> 5, name |-> "p3", parent |-> "", root |-> "p3"]], inv |-> [p1 |-> [VCPU |-> [total |-> 8, reserved |-> 0, num |-> 2, den |-> 1, min_unit |-> 1, max_unit |-> 2147483647, step_size |-> 1], MEMORY_MB |-> [total |-> 1024, reserved |-> 0, num |-> 1, den |-> 1, min_unit |-> 1, max_unit |-> 2147483647, step_size |-> 1]], p2 |-> [DISK_GB |-> [total |-> 100, reserved |-> 0, num |-> 1, den |-> 1, min_unit |-> 1, max_unit |-> 2147483647, step_size |-> 1]], p3 |-> [VCPU |-> [total |-> 4, reserved |-> 0, num |-> 1, den |-> 1, min_unit |-> 1, max_unit |-> 2147483647, step_size |-> 1], DISK_GB |-> [total |-> 50, reserved |-> 10, num |-> 1, den |-> 1, min_unit |-> 1, max_unit |-> 2147483647, step_size |-> 1]]], alloc |-> [c3 |-> [p1 |-> [VCPU |-> 1], p3 |-> [DISK_GB |-> 5]], c4 |-> [p3 |-> [VCPU |-> 1]]], cons |-> [c3 |-> [project |-> "proj1", user |-> "user1", ctype |-> "INSTANCE", gen |-> 1], c4 |-> [project |-> "proj2", user |-> "user2", ctype |-> "MIGRATION", gen |-> 1]], traits |-> [p1 |-> {}, p2 |-> {}, p3 |-> {"HW_CPU_X86_AVX"}], aggs |-> [p1 |-> {}, p2 |-> {}, p3 |-> {"agg1"}], classes |-> [], ctraits |-> {"CUSTOM_T1"}], post |-> [rp |-> [p1 |-> [gen |-> 2, name |-> "p1", parent |-> "", root |-> "p1"], p2 |-> [gen |-> 1, name |-> "p2", parent |-> "p1", root |-> "p1"], p3 |-> [gen |-> 5, name |-> "p3", parent |-> "", root |-> "p3"]], inv |-> [p1 |-> [VCPU |-> [total |-> 8, reserved |-> 0, num |-> 2, den |-> 1, min_unit |-> 1, max_unit |-> 2147483647, step_size |-> 1], MEMORY_MB |-> [total |-> 1024, reserved |-> 0, num |-> 1, den |-> 1, min_unit |-> 1, max_unit |-> 2147483647, step_size |-> 1]], p2 |-> [DISK_GB |-> [total |-> 100, reserved |-> 0, num |-> 1, den |-> 1, min_unit |-> 1, max_unit |-> 2147483647, step_size |-> 1]], p3 |-> [VCPU |-> [total |-> 4, reserved |-> 0, num |-> 1, den |-> 1, min_unit |-> 1, max_unit |-> 2147483647, step_size |-> 1], DISK_GB |-> [total |-> 50, reserved |-> 10, num |-> 1, den |-> 1, min_unit |-> 1, max_unit |-> 2147483647, step_size |-> 1]]], alloc |-> [c4 |-> [p3 |-> [VCPU |-> 1]]], cons |-> [c4 |-> [project |-> "proj2", user |-> "user2", ctype |-> "MIGRATION", gen |-> 1]], traits |-> [p1 |-> {}, p2 |-> {}, p3 |-> {"HW_CPU_X86_AVX"}], aggs |-> [p1 |-> {}, p2 |-> {}, p3 |-> {"agg1"}], classes |-> [], ctraits |-> {"CUSTOM_T1"}]]>>,db0 |-> [rp |-> [p1 |-> [gen |-> 2, name |-> "p1", parent |-> "", root |-> "p1"], p2 |-> [gen |-> 1, name |-> "p2", parent |-> "p1", root |-> "p1"], p3 |-> [gen |-> 5, name |-> "p3", parent |-> "", root |-> "p3"]], inv |-> [p1 |-> [VCPU |-> [total |-> 8, reserved |-> 0, num |-> 2, den |-> 1, min_unit |-> 1, max_unit |-> 2147483647, step_size |-> 1], MEMORY_MB |-> [total |-> 1024, reserved |-> 0, num |-> 1, den |-> 1, min_unit |-> 1, max_unit |-> 2147483647, step_size |-> 1]], p2 |-> [DISK_GB |-> [total |-> 100, reserved |-> 0, num |-> 1, den |-> 1, min_unit |-> 1, max_unit |-> 2147483647, step_size |-> 1]], p3 |-> [VCPU |-> [total |-> 4, reserved |-> 0, num |-> 1, den |-> 1, min_unit |-> 1, max_unit |-> 2147483647, step_size |-> 1], DISK_GB |-> [total |-> 50, reserved |-> 10, num |-> 1, den |-> 1, min_unit |-> 1, max_unit |-> 2147483647, step_size |-> 1]]], alloc |-> [c3 |-> [p1 |-> [VCPU |-> 1], p3 |-> [DISK_GB |-> 5]], c4 |-> [p3 |-> [VCPU |-> 1]]], cons |-> [c3 |-> [project |-> "proj1", user |-> "user1", ctype |-> "INSTANCE", gen |-> 1], c4 |-> [project |-> "proj2", user |-> "user2", ctype |-> "MIGRATION", gen |-> 1]], traits |-> [p1 |-> {}, p2 |-> {}, p3 |-> {"HW_CPU_X86_AVX"}], aggs |-> [p1 |-> {}, p2 |-> {}, p3 |-> {"agg1"}], classes |-> [], ctraits |-> {"CUSTOM_T1"}],pc |-> <<"done", "main">>,resp |-> <<[status |-> 204, code |-> "", body |-> [nobody |-> TRUE]], [status |-> 0, code |-> "", body |-> [nobody |-> TRUE]]>>,rid |-> 30,db |-> [rp |-> [p1 |-> [gen |-> 2, name |-> "p1", parent |-> "", root |-> "p1"], p2 |-> [gen |-> 1, name |-> "p2", parent |-> "p1", root |-> "p1"], p3 |-> [gen |-> 5, name |-> "p3", parent |-> "", root |-> "p3"]], inv |-> [p1 |-> [VCPU |-> [total |-> 8, reserved |-> 0, num |-> 2, den |-> 1, min_unit |-> 1, max_unit |-> 2147483647, step_size |-> 1], MEMORY_MB |-> [total |-> 1024, reserved |-> 0, num |-> 1, den |-> 1, min_unit |-> 1, max_unit |-> 2147483647, step_size |-> 1]], p2 |-> [DISK_GB |-> [total |-> 100, reserved |-> 0, num |-> 1, den |-> 1, min_unit |-> 1, max_unit |-> 2147483647, step_size |-> 1]], p3 |-> [VCPU |-> [total |-> 4, reserved |-> 0, num |-> 1, den |-> 1, min_unit |-> 1, max_unit |-> 2147483647, step_size |-> 1], DISK_GB |-> [total |-> 50, reserved |-> 10, num |-> 1, den |-> 1, min_unit |-> 1, max_unit |-> 2147483647, step_size |-> 1]]], alloc |-> [c4 |-> [p3 |-> [VCPU |-> 1]]], cons |-> [c4 |-> [project |-> "proj2", user |-> "user2", ctype |-> "MIGRATION", gen |-> 1]], traits |-> [p1 |-> {}, p2 |-> {}, p3 |-> {"HW_CPU_X86_AVX"}], aggs |-> [p1 |-> {}, p2 |-> {}, p3 |-> {"agg1"}], classes |-> [], ctraits |-> {"CUSTOM_T1"}]])
    >>
----


=============================================================================

---- CONFIG TxRaces_TTrace_1790901075 ----
CONSTANTS
    FIXES <- AllFixes

INVARIANT
    _inv

CHECK_DEADLOCK
    \* CHECK_DEADLOCK off because of PROPERTY or INVARIANT above.
    FALSE

INIT
    _init

NEXT
    _next

CONSTANT
    _TETrace <- _trace

ALIAS
    _expression
=============================================================================
\* Generated on Fri Oct 02 00:31:17 UTC 2026