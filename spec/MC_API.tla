------------------------------- MODULE MC_API -------------------------------
(***************************************************************************)
(* The sequential Placement service as a state machine, for TLC:           *)
(*                                                                         *)
(*   s' = Apply(s, r).s    for any request r of a finite alphabet          *)
(*                                                                         *)
(* `last` records the request and the response of the latest step; it is   *)
(* what the conformance replayer reads out of simulated behaviours and     *)
(* what the property monitors of Props.tla are evaluated on.  The alphabet *)
(* is built from small constant pools; which operation groups are enabled  *)
(* is chosen by the configuration (MC_*.cfg), so that one module serves    *)
(* the exhaustive sub-models (forest, allocations, names) and the broad    *)
(* simulation model.                                                       *)
(***************************************************************************)
EXTENDS Props

CONSTANTS
  P,        \* provider names
  K,        \* resource classes used in inventories / allocations
  C,        \* consumers
  T,        \* trait names used on providers
  A,        \* aggregates
  INVS,     \* inventory records
  AMTS,     \* amounts
  GROUPS,   \* enabled operation groups: SUBSET {"forest","inv","alloc","reshape","names","assoc","reads"}
  MAXGEN,   \* state constraint: provider / consumer generations
  MAXDEPTH  \* state constraint: behaviour length

VARIABLES s, last

\* constant values referred to from the .cfg files
MkInv(t, r, mn, mx, st, n, d) ==
  [total |-> t, reserved |-> r, min_unit |-> mn, max_unit |-> mx, step_size |-> st, num |-> n, den |-> d]
InvsSmall == {MkInv(4, 0, 1, 4, 1, 1, 1),      \* plain
              MkInv(4, 1, 2, 4, 2, 1, 2),      \* reserved, min 2, step 2, ratio 1/2  (capacity 1)
              MkInv(2, 0, 1, 2, 1, 2, 1),      \* ratio 2 (capacity 4, max_unit 2)
              MkInv(1, 1, 1, 1, 1, 1, 1)}      \* reserved = total (refused below 1.26)
NoInv     == MkInv(0, 0, 0, 0, 0, 0, 1)
InvsThree == {MkInv(4, 0, 1, 4, 1, 1, 1), MkInv(4, 1, 2, 4, 2, 1, 2), MkInv(2, 0, 1, 2, 1, 2, 1)}
InvsOne   == {MkInv(4, 0, 1, 4, 1, 1, 1)}
InvsTwo   == {MkInv(4, 0, 1, 4, 1, 1, 1), MkInv(2, 0, 1, 2, 2, 2, 1)}
G_forest  == {"forest"}
G_alloc   == {"alloc", "invshrink"}
G_reshape == {"reshape", "allocsmall"}
G_names   == {"names", "invnames"}
G_assoc   == {"assoc", "names", "forestsmall"}
G_all     == {"forest", "inv", "alloc", "reshape", "names", "assoc", "reads"}

vars == <<s, last>>

Env == [iproj |-> "iproj", iuser |-> "iuser"]
NoLast == [req |-> [op |-> "none", v |-> 39], resp |-> Resp(0, "", NoBody)]

\* generations a client may carry for provider u: current, stale, future
Gens(u) == IF u \in Providers(s) THEN {s.rp[u].gen, s.rp[u].gen + 1} \cup (IF s.rp[u].gen > 0 THEN {s.rp[u].gen - 1} ELSE {})
           ELSE {0}
CGens(c) == IF c \in DOMAIN s.cons THEN {s.cons[c].gen, s.cons[c].gen + 1, -1} ELSE {-1, 0}

ForestReqs ==
       {[op |-> "rp_create", v |-> v, u |-> u, name |-> u, parent |-> par] :
           v \in {13, 14, 20}, u \in P, par \in {"", "null"} \cup P}
  \cup {[op |-> "rp_create", v |-> 39, u |-> u, name |-> n, parent |-> ""] : u \in P, n \in P}
  \cup {[op |-> "rp_update", v |-> v, u |-> u, name |-> u, parent |-> par] :
           v \in {13, 14, 36, 37}, u \in P, par \in {"", "null"} \cup P}
  \cup {[op |-> "rp_update", v |-> 39, u |-> u, name |-> n, parent |-> ""] : u \in P, n \in P}
  \cup {[op |-> "rp_delete", v |-> 39, u |-> u] : u \in P}
  \* the parent's uuid in another spelling: the service may take either reading (API!Readings)
  \cup {[op |-> "rp_update", v |-> v, u |-> u, name |-> u, parent |-> par, pspell |-> "upper"] :
           v \in {14, 37}, u \in P, par \in P}
  \cup {[op |-> "rp_create", v |-> 14, u |-> u, name |-> u, parent |-> par, pspell |-> "upper"] : u \in P, par \in P}

Pairs(S) == {x \in S \X S : x[1] # x[2]}

InvReqs ==
       {[op |-> "inv_post", v |-> v, u |-> u, rc |-> k, inv |-> i] : v \in {25, 26}, u \in P, k \in K \cup {"NOSUCH"}, i \in INVS}
  \cup UNION {{[op |-> "inv_put", v |-> 39, u |-> u, rc |-> k, gen |-> g, inv |-> i] :
                 k \in K \cup {"NOSUCH"}, g \in Gens(u), i \in INVS} : u \in Providers(s)}
  \cup UNION {{[op |-> "inv_put_all", v |-> 39, u |-> u, gen |-> g, invs |-> q] :
                 g \in Gens(u),
                 q \in {<<>>} \cup {<<[rc |-> k, inv |-> i]>> : k \in K, i \in INVS}
                      \cup {<<[rc |-> kk[1], inv |-> i], [rc |-> kk[2], inv |-> i]>> : kk \in Pairs(K), i \in INVS}}
               : u \in Providers(s)}
  \cup {[op |-> "inv_del", v |-> 39, u |-> u, rc |-> k] : u \in P, k \in K \cup {"NOSUCH"}}
  \cup {[op |-> "inv_del_all", v |-> v, u |-> u] : v \in {4, 5}, u \in P}

\* allocations of one consumer: empty, one provider with one or two classes, or two providers
SmallAmts == {a \in AMTS : a <= 2}
ResSeqs == {<<[rc |-> k, amt |-> a]>> : k \in K, a \in AMTS}
           \cup {<<[rc |-> kk[1], amt |-> a], [rc |-> kk[2], amt |-> a]>> : kk \in {x \in Pairs(K) : x[1] = CHOOSE k \in K : TRUE}, a \in SmallAmts}
SingleSeqs == {<<[u |-> u, res |-> <<[rc |-> k, amt |-> a]>>]>> : u \in P, k \in K, a \in AMTS}
AllocSeqs == {<<>>}
        \cup {<<[u |-> u, res |-> q]>> : u \in P, q \in ResSeqs}
        \cup {<<[u |-> uu[1], res |-> <<[rc |-> k, amt |-> a]>>], [u |-> uu[2], res |-> <<[rc |-> k, amt |-> a]>>]>> :
                uu \in {x \in Pairs(Providers(s)) : x[1] = CHOOSE p \in Providers(s) : TRUE}, k \in K, a \in SmallAmts}
Entry(c, pr, g, ty, al) == [c |-> c, project |-> pr, user |-> "user1", cgen |-> g, ctype |-> ty, allocs |-> al]
CurGen(c) == IF c \in DOMAIN s.cons THEN s.cons[c].gen ELSE -1
\* with the right generation: every shape; with a wrong one: one shape
Entries(c) == {Entry(c, "proj1", CurGen(c), "INSTANCE", al) : al \in AllocSeqs}
         \cup {Entry(c, "proj1", g, "INSTANCE", al) : g \in CGens(c) \ {CurGen(c)}, al \in {<<>>} \cup {CHOOSE q \in SingleSeqs : TRUE}}
         \cup {Entry(c, "proj2", CurGen(c), "MIGRATION", al) : al \in {<<>>} \cup {CHOOSE q \in SingleSeqs : TRUE}}
SmallEntries(c) == {Entry(c, "proj1", CurGen(c), "INSTANCE", al) : al \in {<<>>} \cup SingleSeqs}
AllEntries == UNION {Entries(c) : c \in C}
PutOf(v, e) == [op |-> "alloc_put", v |-> v, c |-> e.c, project |-> e.project, user |-> e.user, cgen |-> e.cgen,
                ctype |-> e.ctype, allocs |-> e.allocs, env |-> Env]

AllocReqs ==
       {PutOf(28, e) : e \in AllEntries}
  \cup {PutOf(v, e) : v \in {7, 12, 38}, e \in UNION {SmallEntries(c) : c \in C}}
  \cup {PutOf(38, Entry(c, "proj2", CurGen(c), "MIGRATION", CHOOSE q \in SingleSeqs : TRUE)) : c \in C}
  \cup {[op |-> "alloc_post", v |-> 28, entries |-> <<ee[1], ee[2]>>, env |-> Env] :
           ee \in {x \in (UNION {SmallEntries(c) : c \in C}) \X (UNION {SmallEntries(c) : c \in C}) : x[1].c # x[2].c}}
  \cup {[op |-> "alloc_del", v |-> 39, c |-> c] : c \in C}

ReshapeReqs ==
  UNION {{[op |-> "reshape", v |-> 38, env |-> Env,
           invs |-> <<[u |-> u, gen |-> g, invs |-> q]>>, entries |-> es] :
             g \in {s.rp[u].gen, s.rp[u].gen + 1},
             q \in {<<>>} \cup {<<[rc |-> k, inv |-> i]>> : k \in K, i \in INVS},
             es \in {<<>>} \cup {<<e>> : e \in UNION {SmallEntries(c) : c \in C}}}
         : u \in Providers(s)}

NamesReqs ==
       {[op |-> "rc_post", v |-> 39, name |-> n] : n \in CustomClassPool \cup {"VCPU", "NOSUCH"}}
  \cup {[op |-> "rc_put", v |-> v, name |-> n, newname |-> m] :
           v \in {6, 7}, n \in {"CUSTOM_RC1", "CUSTOM_RC2", "VCPU", "NOSUCH"}, m \in {"CUSTOM_RC1", "CUSTOM_RC2", "VCPU"}}
  \cup {[op |-> "rc_del", v |-> 39, name |-> n] : n \in {"CUSTOM_RC1", "CUSTOM_RC2", "VCPU", "NOSUCH"}}
  \cup {[op |-> "trait_put", v |-> 39, name |-> n] : n \in {"CUSTOM_T1", "CUSTOM_T2", "HW_CPU_X86_AVX", "NOSUCH"}}
  \cup {[op |-> "trait_del", v |-> 39, name |-> n] : n \in {"CUSTOM_T1", "CUSTOM_T2", "HW_CPU_X86_AVX", "NOSUCH"}}

AssocReqs ==
       UNION {{[op |-> "rp_traits_put", v |-> 39, u |-> u, gen |-> g, traits |-> q] :
                 g \in Gens(u), q \in {<<>>} \cup {<<t>> : t \in T} \cup {<<tt[1], tt[2]>> : tt \in Pairs(T)}}
              : u \in Providers(s)}
  \cup {[op |-> "rp_traits_del", v |-> 39, u |-> u] : u \in P}
  \cup UNION {{[op |-> "agg_put", v |-> v, u |-> u, gen |-> IF v >= 19 THEN g ELSE -1, aggs |-> q] :
                 v \in {18, 19}, g \in Gens(u), q \in {<<>>} \cup {<<a>> : a \in A}}
              : u \in Providers(s)}

ReadReqs ==
       {[op |-> o, v |-> 39, u |-> u] : o \in {"rp_get", "inv_list", "rp_usages", "agg_get", "rp_traits_get", "rp_allocs"}, u \in P}
  \cup {[op |-> "alloc_get", v |-> v, c |-> c] : v \in {11, 12, 28, 38}, c \in C}
  \cup {[op |-> "usages", v |-> v, project |-> pr, user |-> us, ctype |-> ct] :
          v \in {37, 38}, pr \in {"proj1", "iproj"}, us \in {"", "user1"}, ct \in {"", "all", "unknown", "INSTANCE"}}
  \cup {[op |-> "rc_list", v |-> 39], [op |-> "traits_list", v |-> 39, fkind |-> "", names |-> <<>>, prefix |-> "", assoc |-> "true"]}

Requests ==
       (IF "forest"  \in GROUPS THEN ForestReqs ELSE {})
  \cup (IF "inv"     \in GROUPS THEN InvReqs ELSE {})
  \cup (IF "alloc"   \in GROUPS THEN AllocReqs ELSE {})
  \cup (IF "allocsmall" \in GROUPS THEN {PutOf(28, e) : e \in UNION {SmallEntries(c) : c \in C}} ELSE {})
  \cup (IF "invshrink" \in GROUPS THEN
          UNION {{[op |-> "inv_put", v |-> 39, u |-> u, rc |-> k, gen |-> s.rp[u].gen, inv |-> i] : k \in K, i \in INVS}
                 : u \in Providers(s)}
          \cup {[op |-> "inv_del", v |-> 39, u |-> u, rc |-> k] : u \in P, k \in K}
        ELSE {})
  \cup (IF "reshape" \in GROUPS THEN ReshapeReqs ELSE {})
  \cup (IF "names"   \in GROUPS THEN NamesReqs ELSE {})
  \cup (IF "invnames" \in GROUPS THEN
          {[op |-> "inv_post", v |-> 39, u |-> u, rc |-> k, inv |-> i] : u \in P, k \in K \cup {"NOSUCH"}, i \in INVS}
          \cup {[op |-> "inv_del", v |-> 39, u |-> u, rc |-> k] : u \in P, k \in K}
        ELSE {})
  \cup (IF "forestsmall" \in GROUPS THEN {[op |-> "rp_delete", v |-> 39, u |-> u] : u \in P} ELSE {})
  \cup (IF "assoc"   \in GROUPS THEN AssocReqs ELSE {})
  \cup (IF "reads"   \in GROUPS THEN ReadReqs ELSE {})

Init == s = EmptyState /\ last = NoLast

\* start of the allocation sub-model: a parent with one child, no inventory yet
InitTwoProviders ==
  /\ s = [EmptyState EXCEPT
            !.rp = [p \in {"p1", "p2"} |-> [name |-> p, parent |-> IF p = "p2" THEN "p1" ELSE NoParent, root |-> "p1", gen |-> 0]],
            !.inv = [p \in {"p1", "p2"} |-> <<>>],
            !.traits = [p \in {"p1", "p2"} |-> {}],
            !.aggs = [p \in {"p1", "p2"} |-> {}]]
  /\ last = NoLast

\* the same with every choice of inventories for three (provider, class) pairs
InitWithInventories ==
  \E f \in [{<<"p1", "VCPU">>, <<"p2", "VCPU">>, <<"p1", "DISK_GB">>} -> INVS \cup {NoInv}] :
    /\ s = [EmptyState EXCEPT
              !.rp = [p \in {"p1", "p2"} |-> [name |-> p, parent |-> IF p = "p2" THEN "p1" ELSE NoParent, root |-> "p1", gen |-> 1]],
              !.inv = [p \in {"p1", "p2"} |-> [k \in {kk \in {"VCPU", "DISK_GB"} : <<p, kk>> \in DOMAIN f /\ f[<<p, kk>>] # NoInv} |-> f[<<p, k>>]]],
              !.traits = [p \in {"p1", "p2"} |-> {}],
              !.aggs = [p \in {"p1", "p2"} |-> {}]]
    /\ last = NoLast

Do(r) == LET a == Apply(s, r) IN s' = a.s /\ last' = [req |-> r, resp |-> a.resp]

Next == \E r \in Requests : \E x \in Readings(r) : Do(x)

Spec == Init /\ [][Next]_vars

\* For -simulate (behaviours replayed into the real code): the simulator picks
\* uniformly among successor states, so the first steps are confined to
\* building providers and inventories; afterwards everything is allowed.
BuildReqs ==
       {[op |-> "rp_create", v |-> 39, u |-> u, name |-> u, parent |-> par] : u \in P, par \in {""} \cup Providers(s)}
  \cup UNION {{[op |-> "inv_put_all", v |-> 39, u |-> u, gen |-> s.rp[u].gen, invs |-> q] :
                 q \in {<<[rc |-> k, inv |-> i]>> : k \in K \cap (StdClasses \cup DOMAIN s.classes), i \in INVS}
                      \cup {<<[rc |-> kk[1], inv |-> i], [rc |-> kk[2], inv |-> i]>> :
                             kk \in Pairs(K \cap (StdClasses \cup DOMAIN s.classes)), i \in INVS}}
               : u \in Providers(s)}
  \cup {[op |-> "rc_post", v |-> 39, name |-> n] : n \in K \cap CustomClassPool}
\* one randomly drawn request per operation group (TLC!RandomElement), so that
\* every group is equally likely whatever the size of its alphabet
SimGroups == {"forest", "inv", "put", "post", "del", "reshape", "names", "assoc", "reads"}
SimReqsOf(g) ==
  CASE g = "forest" -> {r \in ForestReqs : "pspell" \notin DOMAIN r}   \* replay needs one reading
    [] g = "inv" -> InvReqs
    [] g = "put" -> {r \in AllocReqs : r.op = "alloc_put"}
    [] g = "post" -> {r \in AllocReqs : r.op = "alloc_post"}
    [] g = "del" -> {r \in AllocReqs : r.op = "alloc_del"}
    [] g = "reshape" -> ReshapeReqs
    [] g = "names" -> NamesReqs
    [] g = "assoc" -> AssocReqs
    [] OTHER -> ReadReqs
SimNext == IF TLCGet("level") < 7 THEN Do(RandomElement(BuildReqs))
           ELSE \E g \in SimGroups : SimReqsOf(g) # {} /\ Do(RandomElement(SimReqsOf(g)))
SimSpec == Init /\ [][SimNext]_vars

\* state constraint
Bounded ==
  /\ TLCGet("level") <= MAXDEPTH
  /\ \A p \in Providers(s) : s.rp[p].gen <= MAXGEN
  /\ \A c \in DOMAIN s.cons : s.cons[c].gen <= MAXGEN

\* `last` is history only: states are identified by the database
View == s

---------------------------------------------------------------------------
\* invariants (one per property)
Inv_TypeOK == TypeOK(s)
Inv_C08 == C08_Inv(s)
Inv_C09 == C09_Inv(s)
Inv_C12 == C12_Inv(s)
Inv_C19 == C19_Inv(s)
\* action properties: every monitor holds on every step the model can take
Step_C01 == [][C01_Step(s, last'.req, last'.resp, s')]_vars
Step_C04 == [][C04_Step(s, last'.req, last'.resp, s')]_vars
Step_C08 == [][C08_DeleteRules(s, last'.req, last'.resp, s')]_vars
Step_C09 == [][C09_Rejects(s, last'.req, last'.resp, s')]_vars
Step_C10 == [][C10_Step(s, last'.req, last'.resp, s')]_vars
Step_C12 == [][C12_Step(s, last'.req, last'.resp, s')]_vars
Step_C19 == [][C19_Step(s, last'.req, last'.resp, s')]_vars

\* C11: internal consistency of the read projections
Inv_C11 ==
  /\ \A p \in Providers(s) : \A k \in DOMAIN s.inv[p] :
        Apply(s, [op |-> "rp_usages", v |-> 39, u |-> p]).resp.body.usages[k]
          = MapThenSumSet(LAMBDA c : AllocOf(s, c, p, k), DOMAIN s.alloc)
  /\ \A p \in Providers(s) : \A c \in DOMAIN s.cons :
        LET pv == Apply(s, [op |-> "rp_allocs", v |-> 39, u |-> p]).resp.body.allocs
            cv == Apply(s, [op |-> "alloc_get", v |-> 39, c |-> c]).resp.body.allocs
        IN (c \in DOMAIN pv) <=> (p \in DOMAIN cv)
=============================================================================
