#!/usr/bin/env python3
"""Run the pinned test command of /repo (guard off) and compare with
/root/.vp/BASELINE.json: every stable_pass test must pass."""
import json, os, subprocess, sys, tempfile
import xml.etree.ElementTree as ET
b = json.load(open('/root/.vp/BASELINE.json'))
out = tempfile.mktemp(suffix='.xml')
cmd = b['cmd'].replace('<file>', out)
env = dict(os.environ)
env.pop('PLACEMENT_VERIF', None)
p = subprocess.run(cmd, shell=True, env=env, stdout=subprocess.PIPE, stderr=subprocess.STDOUT)
passed = set()
for tc in ET.parse(out).getroot().iter('testcase'):
    if not list(tc):
        passed.add('%s::%s' % (tc.get('classname'), tc.get('name')))
os.unlink(out)
missing = [t for t in b['stable_pass'] if t not in passed]
print('passed %d, stable_pass %d, missing %d' % (len(passed), len(b['stable_pass']), len(missing)))
for t in missing[:20]:
    print('MISSING', t)
sys.exit(1 if missing else 0)
