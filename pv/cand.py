"""Allocation candidates and provider listing: state and query generation,
rendering, response projection, validation by TLC (spec/TraceCand.tla),
claimability (C02) and limit / randomisation laws (C20)."""
import json
import os
import random
import shutil
import tempfile
from urllib.parse import quote

from pv import names
from pv import project
from pv import reqs as reqmod
from pv import tlc
from pv.scenarios import INV

U = names.to_uuid
N = names.to_name
TRAITS = ['HW_CPU_X86_AVX', 'STORAGE_DISK_SSD', 'CUSTOM_T1']
SHARING = 'MISC_SHARES_VIA_AGGREGATE'
CLASSES = ['VCPU', 'MEMORY_MB', 'DISK_GB', 'CUSTOM_RC1']
AGGS = ['agg1', 'agg2', 'agg3']


# ---------------------------------------------------------------------------
# states

def build_state(s, rnd, nprov=None, small=False):
    """A forest with nested and sharing providers and partially used
    inventories, built through the API (<= 7 providers, <= 3 trees, depth <= 3)."""
    n = nprov or rnd.randint(2, 7)
    s.do(op='rc_post', v=39, name='CUSTOM_RC1')
    s.do(op='trait_put', v=39, name='CUSTOM_T1')
    provs = []
    roots = []
    depth = {}
    nshare = 0
    for i in range(1, n + 1):
        u = 'p%d' % i
        parent = ''
        if provs and len(roots) >= 1 and (len(roots) >= 3 or rnd.random() < 0.6):
            cand = [p for p in provs if depth[p] < 3]
            if cand:
                parent = rnd.choice(cand)
        s.do(op='rp_create', v=39, u=u, name=u, parent=parent)
        provs.append(u)
        depth[u] = 1 if parent == '' else depth[parent] + 1
        if parent == '':
            roots.append(u)
    # now and then the forest is re-arranged after it was built: a root adopted by another
    # provider, so that descendants are older than their new ancestors
    if len(roots) >= 2 and rnd.random() < 0.3:
        for _ in range(rnd.randint(1, 2)):
            if len(roots) < 2:
                break
            mover = rnd.choice(roots)
            st = s.st
            sub = {mover}
            grew = True
            while grew:
                grew = False
                for q, d in st['rp'].items():
                    if d['parent'] in sub and q not in sub:
                        sub.add(q)
                        grew = True
            height = 1 + max([0] + [depth[q] - depth[mover] for q in sub])
            targets = [q for q in provs if q not in sub and depth[q] + height <= 3]
            if not targets:
                continue
            tgt = rnd.choice(targets)
            s.do(op='rp_update', v=39, u=mover, name=mover, parent=tgt)
            delta = depth[tgt] + 1 - depth[mover]
            for q in sub:
                depth[q] += delta
            roots.remove(mover)
    for u in provs:
        sharing = rnd.random() < 0.22
        ks = rnd.sample(CLASSES, rnd.choice([0, 1, 2, 2, 3, 3]) if not sharing else rnd.randint(1, 2))
        invs = {}
        for k in ks:
            total = rnd.choice([4, 4, 8, 8, 16, 5, 7, 9])
            kw = {}
            x = rnd.random()
            if x < 0.08:
                kw['reserved'] = rnd.choice([1, total])
            elif x < 0.2:
                kw['max_unit'] = rnd.choice([1, 2, 3])
            elif x < 0.26:
                kw['min_unit'] = 2
            elif x < 0.32:
                kw['step_size'] = 2
            elif x < 0.5:
                # with an odd total: a capacity that is not a whole number (only its floor can be used)
                kw['num'], kw['den'] = rnd.choice([(2, 1), (1, 2), (3, 2), (3, 2), (5, 4), (3, 4)])
            invs[k] = INV(total, **kw)
        if invs:
            s.invs(u, **invs)
        ts = [t for t in TRAITS if rnd.random() < 0.3]
        if sharing:
            ts.append(SHARING)
            nshare += 1
        if ts:
            s.do(op='rp_traits_put', v=39, u=u, gen=s.gen(u), traits=ts)
        ags = [a for a in AGGS if rnd.random() < (0.45 if sharing else 0.3)]
        if sharing and not ags and rnd.random() < 0.8:
            ags = [rnd.choice(AGGS)]
        if ags:
            s.do(op='agg_put', v=39, u=u, gen=s.gen(u), aggs=ags)
    # usage
    for c in ('c1', 'c2', 'c3'):
        if rnd.random() < 0.6:
            st = s.st
            withinv = [p for p in provs if st['inv'].get(p)]
            if not withinv:
                break
            allocs = {}
            for p in rnd.sample(withinv, min(len(withinv), rnd.randint(1, 2))):
                k = rnd.choice(sorted(st['inv'][p]))
                i = st['inv'][p][k]
                allocs[p] = {k: max(i['min_unit'], i['step_size'])}
            s.put(c, allocs, cgen=-1)
    return provs


# ---------------------------------------------------------------------------
# queries

def _setrec(xs):
    return {x: True for x in xs}


def gen_query(rnd, st, v=None):
    v = v if v is not None else rnd.choice([10, 11, 12, 16, 17, 21, 22, 24, 25, 27, 28, 29,
                                            31, 32, 33, 34, 35, 36, 38, 39, 39, 39])
    provs = sorted(st['rp'])
    classes = [k for k in CLASSES if k != 'CUSTOM_RC1' or 'CUSTOM_RC1' in st['classes']]

    def boundary_amounts(k):
        """Amounts at the edges of what some inventory of class k admits."""
        out = []
        for p, invs in st['inv'].items():
            i = invs.get(k)
            if not i:
                continue
            used = sum(d.get(p, {}).get(k, 0) for d in st['alloc'].values())
            cap = (i['total'] - i['reserved']) * i['num'] // i['den']
            room = cap - used
            for a in (room, room + 1, i['max_unit'], i['max_unit'] + 1, i['min_unit'], i['min_unit'] - 1,
                      i['step_size'], i['step_size'] + 1, 2 * i['step_size']):
                if 1 <= a <= 64:
                    out.append(a)
        return out

    def res(nmax):
        ks = rnd.sample(classes, rnd.randint(1, nmax))
        d = {}
        for k in ks:
            b = boundary_amounts(k) if rnd.random() < 0.3 else []
            d[k] = rnd.choice(b) if b else rnd.choice([1, 1, 1, 2, 2, 3, 4])
        return d

    def filters(g, suffixed):
        if v >= 17 and rnd.random() < 0.2:
            ts = rnd.sample(TRAITS, rnd.choice([1, 1, 2]))
            g['required'] = [_setrec([t]) for t in ts]
        if v >= 39 and rnd.random() < 0.15:
            g['required'].append(_setrec(rnd.sample(TRAITS + [SHARING], 2)))
        if v >= 22 and rnd.random() < 0.2:
            cand = [t for t in TRAITS if not any(t in r for r in g['required'])]
            if cand:
                g['forbidden'] = _setrec([rnd.choice(cand)])
        if v >= 21 and rnd.random() < 0.2:
            if rnd.random() < 0.5:
                g['member_of'] = [_setrec([rnd.choice(AGGS)])]
            else:
                g['member_of'] = [_setrec(rnd.sample(AGGS, 2))]
            if v >= 24 and rnd.random() < 0.25:
                g['member_of'].append(_setrec([rnd.choice(AGGS)]))
        if v >= 32 and rnd.random() < 0.2:
            g['forbidden_aggs'] = _setrec(rnd.sample(AGGS, rnd.randint(1, 2)))
        if v >= 31 and rnd.random() < 0.2 and provs:
            g['in_tree'] = rnd.choice(provs)

    def disjoint_pair():
        """A (trait, aggregate) pair each of which some provider has while no
        provider has both: the conjunction must select nothing."""
        pairs = []
        for t in TRAITS:
            ht = {p for p in st['rp'] if t in st['traits'].get(p, {})}
            for a in AGGS:
                ha = {p for p in st['rp'] if a in st['aggs'].get(p, {})}
                if ht and ha and not (ht & ha):
                    pairs.append((t, a))
        return rnd.choice(pairs) if pairs else None

    groups = []
    nsuf = 0
    if v >= 25:
        nsuf = rnd.choice([0, 0, 1, 1, 2, 2, 3])
    has_un = nsuf == 0 or rnd.random() < 0.75
    if has_un:
        g = {'suffix': '', 'res': res(3), 'required': [], 'forbidden': {},
             'member_of': [], 'forbidden_aggs': {}, 'in_tree': ''}
        filters(g, False)
        groups.append(g)
    sufs = []
    for i in range(nsuf):
        sfx = str(i + 1) if v < 33 or rnd.random() < 0.5 else '_G%d' % (i + 1)
        g = {'suffix': sfx, 'res': res(2), 'required': [], 'forbidden': {},
             'member_of': [], 'forbidden_aggs': {}, 'in_tree': ''}
        filters(g, True)
        groups.append(g)
        sufs.append(sfx)
    # conjunctions of positive filters whose intersection is empty although each matches
    if v >= 21 and rnd.random() < 0.12:
        dp = disjoint_pair()
        if dp:
            g = rnd.choice(groups)
            g['required'] = [_setrec([dp[0]])]
            g['member_of'] = [_setrec([dp[1]])]
            g['forbidden'] = {}
            g['forbidden_aggs'] = {}
    q = {'op': 'ac_list', 'v': v, 'groups': groups, 'policy': '',
         'root_required': {}, 'root_forbidden': {}, 'same_subtree': [], 'limit': -1}
    if nsuf >= 2 or (nsuf >= 1 and rnd.random() < 0.5):
        q['policy'] = rnd.choice(['none', 'isolate'])
    if v >= 35 and rnd.random() < 0.2:
        q['root_required'] = _setrec([rnd.choice(TRAITS)])
    if v >= 35 and rnd.random() < 0.15:
        cand = [t for t in TRAITS if t not in q['root_required']]
        q['root_forbidden'] = _setrec([rnd.choice(cand)])
    if v >= 36 and len(sufs) >= 2 and rnd.random() < 0.4:
        q['same_subtree'] = [_setrec(rnd.sample(sufs, rnd.randint(2, len(sufs))))]
    # a resourceless group that only positions the others in a subtree (1.36);
    # it is selected by any one kind of filter, positive or negative
    if v >= 36 and len(sufs) >= 1 and rnd.random() < 0.25:
        g = {'suffix': '_ROOT', 'res': {}, 'required': [], 'forbidden': {}, 'member_of': [], 'forbidden_aggs': {},
             'in_tree': ''}
        how = rnd.choice(['required', 'required', 'forbidden', 'member_of', 'forbidden_aggs', 'in_tree'])
        if how == 'required':
            g['required'] = [_setrec([rnd.choice(TRAITS)])]
            if provs and rnd.random() < 0.4:
                g['in_tree'] = rnd.choice(provs)
        elif how == 'forbidden':
            g['forbidden'] = _setrec([rnd.choice(TRAITS)])
        elif how == 'member_of':
            g['member_of'] = [_setrec([rnd.choice(AGGS)])]
        elif how == 'forbidden_aggs':
            g['forbidden_aggs'] = _setrec([rnd.choice(AGGS)])
        elif provs:
            g['in_tree'] = rnd.choice(provs)
        else:
            g['required'] = [_setrec([rnd.choice(TRAITS)])]
        groups.append(g)
        q['same_subtree'] = q['same_subtree'] + [_setrec([g['suffix']] + sufs[:1])]
        if q['policy'] == '':
            q['policy'] = 'none'
    return q


def render_query(q):
    v = q['v']
    parts = []
    for g in q['groups']:
        s = g['suffix']
        if g['res']:
            parts.append(('resources' + s, ','.join('%s:%d' % (k, a) for k, a in g['res'].items())))
        singles = [list(r)[0] for r in g['required'] if len(r) == 1]
        anys = [sorted(r) for r in g['required'] if len(r) > 1]
        forb = ['!' + t for t in g['forbidden']]
        if singles or forb:
            parts.append(('required' + s, ','.join(singles + forb)))
        for a in anys:
            parts.append(('required' + s, 'in:' + ','.join(a)))
        for m in g['member_of']:
            m = sorted(m)
            parts.append(('member_of' + s, U(m[0]) if len(m) == 1 else 'in:' + ','.join(U(x) for x in m)))
        if g['forbidden_aggs']:
            fa = sorted(g['forbidden_aggs'])
            parts.append(('member_of' + s, '!' + U(fa[0]) if len(fa) == 1 else '!in:' + ','.join(U(x) for x in fa)))
        if g['in_tree']:
            parts.append(('in_tree' + s, U(g['in_tree'])))
    if q['policy']:
        parts.append(('group_policy', q['policy']))
    rr = sorted(q['root_required']) + ['!' + t for t in sorted(q['root_forbidden'])]
    if rr:
        parts.append(('root_required', ','.join(rr)))
    for ss in q['same_subtree']:
        parts.append(('same_subtree', ','.join(sorted(ss))))
    if q['limit'] != -1:
        parts.append(('limit', str(q['limit'])))
    qs = '&'.join('%s=%s' % (k, quote(val, safe=':,!')) for k, val in parts)
    return 'GET', '/allocation_candidates?' + qs, reqmod.headers(v), None


def parse_ac(q, status, body):
    if status != 200:
        return {}
    j = json.loads(body)
    out = []
    for ar in j['allocation_requests']:
        if isinstance(ar['allocations'], list):
            allocs = {N(a['resource_provider']['uuid']): a['resources'] for a in ar['allocations']}
        else:
            allocs = {N(p): d['resources'] for p, d in ar['allocations'].items()}
        r = {'allocs': allocs}
        if 'mappings' in ar:
            r['mappings'] = {sfx: _setrec(N(p) for p in ps) for sfx, ps in ar['mappings'].items()}
        out.append(r)
    sums = {}
    for p, d in j['provider_summaries'].items():
        sums[N(p)] = {
            'res': d['resources'],
            'traits': _setrec(d['traits']) if 'traits' in d else {'absent': True},
            'parent': ('-' if 'parent_provider_uuid' not in d else
                       ('' if d['parent_provider_uuid'] is None else N(d['parent_provider_uuid']))),
            'root': '-' if 'root_provider_uuid' not in d else N(d['root_provider_uuid'])}
    return {'reqs': out, 'summaries': sums, 'raw': j['allocation_requests']}


def gen_filter(rnd, st, v=None):
    v = v if v is not None else rnd.choice([0, 3, 4, 14, 18, 22, 24, 32, 38, 39, 39, 39])
    provs = sorted(st['rp'])
    f = {'op': 'rp_list', 'v': v, 'name': '', 'has_name': False, 'uuid': '', 'in_tree': '', 'member_of': [],
         'forbidden_aggs': {}, 'required': [], 'forbidden': {}, 'resources': {}}
    if rnd.random() < 0.15:
        f['name'] = rnd.choice(provs + ['p9', '']) if provs else 'p9'
        f['has_name'] = True
    if rnd.random() < 0.15:
        f['uuid'] = rnd.choice(provs + ['p9']) if provs else 'p9'
    if v >= 14 and rnd.random() < 0.3:
        f['in_tree'] = rnd.choice(provs + ['p9']) if provs else 'p9'
    if v >= 3 and rnd.random() < 0.4:
        f['member_of'] = [_setrec(rnd.sample(AGGS + ['agg5'], rnd.randint(1, 2)))]
        if v >= 24 and rnd.random() < 0.3:
            f['member_of'].append(_setrec([rnd.choice(AGGS + ['agg5'])]))
    if v >= 32 and rnd.random() < 0.3:
        f['forbidden_aggs'] = _setrec(rnd.sample(AGGS + ['agg5'], rnd.randint(1, 2)))
    if v >= 18 and rnd.random() < 0.4:
        f['required'] = [_setrec([t]) for t in rnd.sample(TRAITS + [SHARING], rnd.randint(1, 2))]
        if v >= 39 and rnd.random() < 0.4:
            f['required'].append(_setrec(rnd.sample(TRAITS + [SHARING], 2)))
    if v >= 22 and rnd.random() < 0.3:
        cand = [t for t in TRAITS + [SHARING] if not any(t in r for r in f['required'])]
        if cand:
            f['forbidden'] = _setrec(rnd.sample(cand, 1))
    if v >= 4 and rnd.random() < 0.45:
        classes = [k for k in CLASSES if k != 'CUSTOM_RC1' or 'CUSTOM_RC1' in st['classes']]
        f['resources'] = {k: rnd.choice([1, 2, 3, 4, 8]) for k in rnd.sample(classes, rnd.randint(1, 2))}
        if rnd.random() < 0.4:
            # an amount at the edge of what one of the inventories admits
            k = rnd.choice(sorted(f['resources']))
            edges = []
            for p, invs in st['inv'].items():
                i = invs.get(k)
                if i:
                    used = sum(d.get(p, {}).get(k, 0) for d in st['alloc'].values())
                    room = (i['total'] - i['reserved']) * i['num'] // i['den'] - used
                    edges += [a for a in (room, room + 1, i['max_unit'], i['max_unit'] + 1, i['min_unit'] - 1,
                                          i['step_size'] + 1) if 1 <= a <= 64]
            if edges:
                f['resources'][k] = rnd.choice(edges)
    # a conjunction of positive filters each of which matches while no provider satisfies both
    if v >= 18 and rnd.random() < 0.1:
        pairs = []
        for t in TRAITS + [SHARING]:
            ht = {p for p in st['rp'] if t in st['traits'].get(p, {})}
            for a in AGGS:
                ha = {p for p in st['rp'] if a in st['aggs'].get(p, {})}
                if ht and ha and not (ht & ha):
                    pairs.append((t, a))
        if pairs:
            t, a = rnd.choice(pairs)
            f['required'] = [_setrec([t])]
            f['member_of'] = [_setrec([a])]
            f['forbidden'] = {}
            f['forbidden_aggs'] = {}
    # a required trait all of whose holders also have the forbidden one (the intermediate
    # selection is empty), together with an aggregate that has members
    if v >= 22 and rnd.random() < 0.1:
        allt = TRAITS + [SHARING]
        holders = {t: {p for p in st['rp'] if t in st['traits'].get(p, {})} for t in allt}
        pairs = [(t, x) for t in allt for x in allt if t != x and holders[t] and holders[t] <= holders[x]]
        aggs = [a for a in AGGS if any(a in st['aggs'].get(p, {}) for p in st['rp'])]
        if pairs and aggs:
            t, x = rnd.choice(pairs)
            f['required'] = [_setrec([t])]
            f['forbidden'] = _setrec([x])
            f['member_of'] = [_setrec([rnd.choice(aggs)])]
            f['forbidden_aggs'] = {}
    # a tree and two classes of one of its providers, each amount at the edge of the room that
    # class has left there (usage differs from class to class)
    if v >= 14 and rnd.random() < 0.12:
        def room(p, k):
            i = st['inv'][p][k]
            used = sum(d.get(p, {}).get(k, 0) for d in st['alloc'].values())
            return (i['total'] - i['reserved']) * i['num'] // i['den'] - used
        two = [p for p in provs if len(st['inv'].get(p, {})) >= 2]
        if two:
            p = rnd.choice(two)
            k1, k2 = rnd.sample(sorted(st['inv'][p]), 2)
            f.update({'name': '', 'has_name': False, 'uuid': '', 'member_of': [], 'forbidden_aggs': {},
                      'required': [], 'forbidden': {}})
            f['in_tree'] = rnd.choice([p, st['rp'][p]['root'], st['rp'][p]['root']])
            f['resources'] = {k1: max(1, room(p, k1) + rnd.choice([0, 0, 1])),
                              k2: max(1, room(p, k2) + rnd.choice([0, 0, 1]))}
    if rnd.random() < 0.04 and v >= 18:
        f['required'].append(_setrec(['CUSTOM_T4']))     # unknown trait -> 400
    if rnd.random() < 0.04 and v >= 4:
        f['resources']['NOSUCH'] = 1                       # unknown class -> 400
    return f


def render_filter(f):
    v = f['v']
    parts = []
    if f['has_name']:
        parts.append(('name', f['name']))
    if f['uuid']:
        parts.append(('uuid', U(f['uuid']) if f['uuid'] in names.NAME2UUID else names.NAME2UUID.get('p12')))
    if f['in_tree']:
        parts.append(('in_tree', U(f['in_tree']) if f['in_tree'] in names.NAME2UUID else names.NAME2UUID.get('p12')))
    for m in f['member_of']:
        m = sorted(m)
        parts.append(('member_of', U(m[0]) if len(m) == 1 else 'in:' + ','.join(U(x) for x in m)))
    if f['forbidden_aggs']:
        fa = sorted(f['forbidden_aggs'])
        parts.append(('member_of', '!' + U(fa[0]) if len(fa) == 1 else '!in:' + ','.join(U(x) for x in fa)))
    singles = [list(r)[0] for r in f['required'] if len(r) == 1]
    anys = [sorted(r) for r in f['required'] if len(r) > 1]
    forb = ['!' + t for t in f['forbidden']]
    if singles or forb:
        parts.append(('required', ','.join(singles + forb)))
    for a in anys:
        parts.append(('required', 'in:' + ','.join(a)))
    if f['resources']:
        parts.append(('resources', ','.join('%s:%d' % (k, a) for k, a in f['resources'].items())))
    qs = '&'.join('%s=%s' % (k, quote(val, safe=':,!')) for k, val in parts)
    return 'GET', '/resource_providers' + ('?' + qs if qs else ''), reqmod.headers(v), None


def validate(lines, timeout=3600):
    d = tempfile.mkdtemp(prefix='pv-cand-')
    try:
        path = os.path.join(d, 'cand.ndjson')
        with open(path, 'w') as f:
            for ln in lines:
                f.write(json.dumps(ln, sort_keys=True))
                f.write('\n')
        rc, out, wall = tlc.run('TraceCand', 'TraceCand.cfg', env={'TRACE_FILE': path},
                                workers=1, timeout=timeout, metadir=os.path.join(d, 'm'),
                                jvm=['-Xss64m'])
        verdicts = {}
        for v in tlc.printed_values(out, 'CV'):
            verdicts[v[1]] = sorted(v[2])
        if len(verdicts) != len(lines) or 'Error:' in out:
            raise tlc.TLCError('TraceCand judged %d of %d lines (rc %s)\n%s'
                               % (len(verdicts), len(lines), rc, out[-3000:]))
        return verdicts, wall
    finally:
        shutil.rmtree(d, ignore_errors=True)


# ---------------------------------------------------------------------------
# engine

def _ac(app, q):
    m, p, h, b = render_query(q)
    status, rh, rb = app.call(m, p, h, b)
    body = parse_ac(q, status, rb)
    raw = body.pop('raw', None) if body else None
    return status, body, raw, p, rb


def _claim_body(v, raw_req, consumer_ok=True):
    """The returned allocation request, unchanged, plus the envelope keys the
    version requires for PUT /allocations/{consumer}."""
    b = dict(raw_req)
    if v >= 8:
        b['project_id'] = 'claim-project'
        b['user_id'] = 'claim-user'
    if v >= 28:
        b['consumer_generation'] = None
    if v >= 38:
        b['consumer_type'] = 'INSTANCE'
    return b


def has_nested_sharing(st):
    return any(SHARING in st['traits'].get(p, {}) and d['parent'] != ''
               for p, d in st['rp'].items())


def worker(job):
    from pv.app import get_app
    from pv import trace, scenarios
    app = get_app()
    mode = job['mode']
    lines = []
    meta = {}
    extra_bad = []
    nclaims = 0
    nstates = 0
    plan = [('random', seed) for seed in job['seeds']] + [('family', i) for i in job.get('family', [])]
    for kind_, seed in plan:
        rnd = random.Random(seed)
        rec = trace.Recorder(app)
        rec.new_history()
        s = scenarios.S(rec, rnd)
        if kind_ == 'family':
            build_family_state(s, seed)
            fam = family_queries() if seed < 36 else nested_family_queries() if seed < 60 else oldform_queries()
        else:
            build_state(s, rnd)
            fam = None
        st = rec.state()[0]
        nstates += 1
        tag = 'nested-sharing-provider' if has_nested_sharing(st) else ''
        app.snapshot('cand')
        for qi in range(len(fam) if fam else job['nq']):
            if fam is None and (mode == 'C13' or (mode == 'C03' and rnd.random() < 0.15)):
                f = gen_filter(rnd, st)
                m, p, h, b = render_filter(f)
                status, rh, rb = app.call(m, p, h, b)
                body = {}
                if status == 200:
                    body = {'uuids': {N(x['uuid']): True
                                      for x in json.loads(rb)['resource_providers']}}
                lid = len(lines) + 1
                lines.append({'id': lid, 'kind': 'list', 'pre': st, 'q': f,
                              'status': status, 'body': body})
                meta[lid] = {'path': p, 'tag': tag, 'seed': seed, 'raw': rb[:300].decode('utf-8', 'replace')}
                continue
            q = fam[qi] if fam else gen_query(rnd, st)
            status, body, raw, p, rb = _ac(app, q)
            lid = len(lines) + 1
            lines.append({'id': lid, 'kind': 'ac', 'pre': st, 'q': q,
                          'status': status, 'body': body})
            meta[lid] = {'path': p, 'tag': tag, 'seed': seed, 'raw': rb[:300].decode('utf-8', 'replace')}
            if status != 200:
                continue
            if mode == 'C02' and raw:
                v = q['v']
                for k, ar in enumerate(raw[:job.get('claims', 8)]):
                    cst, ch, cb = app.call('PUT', '/allocations/' + U('c8'),
                                           reqmod.headers(v, True), _claim_body(v, ar))
                    nclaims += 1
                    app.restore('cand')
                    if cst != 204:
                        extra_bad.append({'why': 'C02_claim', 'path': p, 'seed': seed, 'tag': tag,
                                          'candidate': ar, 'claim_status': cst,
                                          'claim_body': cb[:400].decode('utf-8', 'replace'),
                                          'q': q, 'pre': st})
            if mode == 'C20' and body['reqs'] is not None:
                mfull = len(body['reqs'])
                if mfull == 0 or q['v'] < 16:
                    continue
                for randomize in (False, True):
                    app.conf.set_override('randomize_allocation_candidates', randomize, group='placement')
                    try:
                        random.seed(rnd.randrange(1 << 30))
                        st0, full, _, _, _ = _ac(app, q)
                        for n in list(range(1, min(mfull, job.get('maxlimit', 6)) + 2)):
                            ql = dict(q, limit=n)
                            for rep in range(job.get('reps', 2)):
                                random.seed(rnd.randrange(1 << 30))
                                s1, b1, _, p1, _ = _ac(app, ql)
                                s2, b2, _, _, _ = _ac(app, ql)
                                lid = len(lines) + 1
                                lines.append({'id': lid, 'kind': 'limit', 'pre': st, 'q': ql,
                                              'status': s1, 'body': b1, 'full': full,
                                              'again': b2, 'randomize': randomize})
                                meta[lid] = {'path': p1, 'tag': tag, 'seed': seed, 'raw': ''}
                    finally:
                        app.conf.clear_override('randomize_allocation_candidates', group='placement')
    verdicts, wall = validate(lines) if lines else ({}, 0)
    bad = []
    info_between = 0
    keys = set()
    hist = {}
    for ln in lines:
        v = verdicts[ln['id']]
        if 'INFO_between_must_and_may' in v:
            info_between += 1
        v = [x for x in v if not x.startswith('INFO')]
        m = meta[ln['id']]
        nres = len(ln['body'].get('reqs', ln['body'].get('uuids', []))) if ln['body'] else -1
        hk = '%s:%s:%s' % (ln['kind'], ln['status'], 'empty' if nres == 0 else 'nonempty')
        hist[hk] = hist.get(hk, 0) + 1
        if nres > 0:
            keys.add(json.dumps([ln['q'], sorted(ln['pre']['rp'])], sort_keys=True)[:2000])
        if v:
            bad.append({'monitors': v, 'kind': ln['kind'], 'q': ln['q'], 'pre': ln['pre'],
                        'status': ln['status'], 'body': ln['body'], 'path': m['path'],
                        'tag': m['tag'], 'seed': m['seed'], 'raw': m['raw']})
    for e in extra_bad:
        bad.append({'monitors': [e['why']], 'kind': 'claim', 'q': e['q'], 'pre': e['pre'],
                    'status': e['claim_status'], 'body': {'candidate': e['candidate'], 'answer': e['claim_body']},
                    'path': e['path'], 'tag': e['tag'], 'seed': e['seed'], 'raw': ''})
    return {'n': len(lines), 'states': nstates, 'claims': nclaims, 'bad': bad,
            'between': info_between, 'keys': sorted(keys), 'hist': hist, 't_tlc': wall,
            'sample': [{'query': meta[1]['path'], 'status': lines[0]['status']}] if lines else []}


# ---------------------------------------------------------------------------
# systematic small-scope family: two compute trees and one sharing provider
# in every arrangement of two aggregates, crossed with a query family that
# exercises member_of / in_tree / group order on both kinds of groups

def family_size():
    return 4 * 3 * 3 + 2 * 3 * 2 * 2


def build_nested_family_state(s, idx):
    """Nested providers and no sharing provider anywhere: aggregates and
    traits on the root versus on the child."""
    a_root = [[], ['agg1']][idx % 2]
    a_child = [[], ['agg1'], ['agg2']][(idx // 2) % 3]
    a_flat = [[], ['agg1']][(idx // 6) % 2]
    t_child = [[], ['HW_CPU_X86_AVX']][(idx // 12) % 2]
    s.do(op='rc_post', v=39, name='CUSTOM_RC1')
    s.do(op='trait_put', v=39, name='CUSTOM_T1')
    s.mk('p1')
    s.mk('p2', 'p1')
    s.mk('p3')
    s.mk('p4')
    s.invs('p1', MEMORY_MB=16)
    s.invs('p2', VCPU=4, CUSTOM_RC1=2)
    s.invs('p3', VCPU=8, MEMORY_MB=16)
    s.invs('p4', VCPU=8)
    s.do(op='rp_traits_put', v=39, u='p1', gen=s.gen('p1'), traits=['CUSTOM_T1'])
    if t_child:
        s.do(op='rp_traits_put', v=39, u='p2', gen=s.gen('p2'), traits=t_child)
    for u, ags in (('p1', a_root), ('p2', a_child), ('p3', a_flat)):
        if ags:
            s.do(op='agg_put', v=39, u=u, gen=s.gen(u), aggs=ags)


def nested_family_queries():
    def g(sfx, res, member_of=None, forbidden_aggs=None, in_tree='', required=None, forbidden=None):
        return {'suffix': sfx, 'res': res, 'required': [_setrec(r) for r in (required or [])],
                'forbidden': _setrec(forbidden or []), 'member_of': [_setrec(m) for m in (member_of or [])],
                'forbidden_aggs': _setrec(forbidden_aggs or []), 'in_tree': in_tree}

    def q(groups, v, policy='', **kw):
        d = {'op': 'ac_list', 'v': v, 'groups': groups, 'policy': policy, 'root_required': {},
             'root_forbidden': {}, 'same_subtree': [], 'limit': -1}
        d.update(kw)
        return d
    out = []
    for v in (17, 21, 24, 28, 29, 39):
        out.append(q([g('', {'VCPU': 1})], v))
        out.append(q([g('', {'VCPU': 1, 'MEMORY_MB': 1})], v))
        out.append(q([g('', {'VCPU': 1}, required=[['CUSTOM_T1']])], v))
        out.append(q([g('', {'VCPU': 1, 'MEMORY_MB': 1}, required=[['CUSTOM_T1'], ['HW_CPU_X86_AVX']])], v))
        if v >= 21:
            out.append(q([g('', {'VCPU': 1}, member_of=[['agg1']])], v))
            out.append(q([g('', {'VCPU': 1, 'MEMORY_MB': 1}, member_of=[['agg1']])], v))
            out.append(q([g('', {'CUSTOM_RC1': 1}, member_of=[['agg1', 'agg2']])], v))
        if v >= 22:
            out.append(q([g('', {'VCPU': 1}, forbidden=['HW_CPU_X86_AVX'])], v))
            out.append(q([g('', {'VCPU': 1, 'MEMORY_MB': 1}, forbidden=['CUSTOM_T1'])], v))
        if v >= 25:
            out.append(q([g('1', {'VCPU': 1}, member_of=[['agg1']])], v))
            out.append(q([g('', {'MEMORY_MB': 1}), g('1', {'VCPU': 1}, member_of=[['agg1']])], v))
        if v >= 32:
            out.append(q([g('', {'VCPU': 1}, forbidden_aggs=['agg1'])], v))
            out.append(q([g('', {'VCPU': 1, 'MEMORY_MB': 1}, forbidden_aggs=['agg2'])], v))
    return out


OLDFORM = [60, 61]


def build_oldform_state(s, idx):
    """For the list form of allocation requests (below 1.12): a compute node that supplies the
    classes with the lowest and the highest identifier while a sharing provider supplies one in
    between, so that the node's resources are not adjacent in identifier order."""
    s.do(op='rc_post', v=39, name='CUSTOM_RC1')
    s.mk('p1')
    s.mk('p3')
    s.mk('p4')
    s.invs('p1', VCPU=8, MEMORY_MB=16, CUSTOM_RC1=4)
    s.invs('p3', VCPU=8, CUSTOM_RC1=2)
    if idx == 0:
        s.invs('p4', DISK_GB=100)
    else:
        s.invs('p4', DISK_GB=100, MEMORY_MB=64)
    s.do(op='rp_traits_put', v=39, u='p4', gen=s.gen('p4'), traits=[SHARING])
    for u in ('p1', 'p3', 'p4'):
        s.do(op='agg_put', v=39, u=u, gen=s.gen(u), aggs=['agg1'])


def oldform_queries():
    out = []
    for v in (10, 11, 12, 16, 27):
        for res in ({'VCPU': 1, 'DISK_GB': 10, 'CUSTOM_RC1': 1}, {'VCPU': 1, 'MEMORY_MB': 4, 'DISK_GB': 5, 'CUSTOM_RC1': 1},
                    {'VCPU': 2, 'DISK_GB': 10}, {'MEMORY_MB': 4, 'CUSTOM_RC1': 2, 'VCPU': 1}):
            out.append({'op': 'ac_list', 'v': v, 'policy': '', 'root_required': {}, 'root_forbidden': {},
                        'same_subtree': [], 'limit': -1,
                        'groups': [{'suffix': '', 'res': dict(res), 'required': [], 'forbidden': {}, 'member_of': [],
                                    'forbidden_aggs': {}, 'in_tree': ''}]})
    return out


def build_family_state(s, idx):
    if idx >= 60:
        return build_oldform_state(s, idx - 60)
    if idx >= 36:
        return build_nested_family_state(s, idx - 36)
    subsets = [[], ['agg1'], ['agg2'], ['agg1', 'agg2']]
    a_cn1 = subsets[idx % 4]
    a_cn2 = [[], ['agg1'], ['agg2']][(idx // 4) % 3]
    a_ss = [['agg1'], ['agg2'], ['agg1', 'agg2']][(idx // 12) % 3]
    s.do(op='rc_post', v=39, name='CUSTOM_RC1')
    s.do(op='trait_put', v=39, name='CUSTOM_T1')
    s.mk('p1')
    s.mk('p2', 'p1')
    s.mk('p3')
    s.mk('p4')
    s.invs('p1', VCPU=8, MEMORY_MB=16)
    s.invs('p2', CUSTOM_RC1=4, VCPU=2)
    s.invs('p3', VCPU=8, DISK_GB=20)
    s.invs('p4', DISK_GB=100)
    s.do(op='rp_traits_put', v=39, u='p4', gen=s.gen('p4'), traits=[SHARING])
    s.do(op='rp_traits_put', v=39, u='p1', gen=s.gen('p1'), traits=['HW_CPU_X86_AVX'])
    for u, ags in (('p1', a_cn1), ('p3', a_cn2), ('p4', a_ss)):
        if ags:
            s.do(op='agg_put', v=39, u=u, gen=s.gen(u), aggs=ags)


def family_queries():
    def g(sfx, res, member_of=None, forbidden_aggs=None, in_tree='', required=None):
        return {'suffix': sfx, 'res': res, 'required': [_setrec(r) for r in (required or [])],
                'forbidden': {}, 'member_of': [_setrec(m) for m in (member_of or [])],
                'forbidden_aggs': _setrec(forbidden_aggs or []), 'in_tree': in_tree}

    def q(groups, policy='', v=39, **kw):
        d = {'op': 'ac_list', 'v': v, 'groups': groups, 'policy': policy, 'root_required': {},
             'root_forbidden': {}, 'same_subtree': [], 'limit': -1}
        d.update(kw)
        return d
    out = [q([g('', {'VCPU': 1, 'DISK_GB': 10})]),
           q([g('', {'VCPU': 1, 'DISK_GB': 10})], v=28),
           q([g('', {'VCPU': 1, 'DISK_GB': 10, 'CUSTOM_RC1': 1})]),
           q([g('1', {'VCPU': 1}), g('2', {'DISK_GB': 5})], policy='isolate'),
           q([g('1', {'VCPU': 1}), g('2', {'DISK_GB': 5})], policy='none', v=34),
           q([g('', {'VCPU': 1}, in_tree='p1'), g('1', {'DISK_GB': 5})]),
           q([g('', {'DISK_GB': 5}), g('1', {'VCPU': 1}, in_tree='p3')]),
           q([g('', {'VCPU': 1}, required=[['HW_CPU_X86_AVX']]), g('1', {'DISK_GB': 5})]),
           q([g('', {'VCPU': 1, 'DISK_GB': 5})], root_required=_setrec(['HW_CPU_X86_AVX']))]
    # one group that the sharing provider satisfies all by itself (one request, however many anchors)
    out += [q([g('', {'DISK_GB': 10})]), q([g('_D', {'DISK_GB': 10})]), q([g('', {'DISK_GB': 10})], v=16),
            q([g('1', {'DISK_GB': 30})], v=25)]
    for a in ('agg1', 'agg2'):
        out += [q([g('', {'VCPU': 1}, member_of=[[a]]), g('1', {'DISK_GB': 10})]),
                q([g('1', {'DISK_GB': 10}), g('', {'VCPU': 1}, member_of=[[a]])]),
                q([g('', {'VCPU': 1, 'DISK_GB': 10}, member_of=[[a]])]),
                q([g('', {'DISK_GB': 10}), g('1', {'VCPU': 1}, member_of=[[a]])]),
                q([g('', {'VCPU': 1}), g('1', {'DISK_GB': 10}, member_of=[[a]])]),
                q([g('', {'VCPU': 1, 'DISK_GB': 10}, forbidden_aggs=[a])]),
                q([g('', {'VCPU': 1}, forbidden_aggs=[a]), g('_D', {'DISK_GB': 10})]),
                q([g('', {'VCPU': 1}, member_of=[['agg1', 'agg2']]), g('1', {'DISK_GB': 10}, forbidden_aggs=[a])])]
    return out
