"""pv - harness binding the TLA+ specification family in /verif/spec to the
real openstack/placement code in /repo (see /verif/DESIGN.md)."""
