"""Recording executions of the real application and validating them with TLC
against spec/TraceAPI.tla."""
import json
import os
import tempfile
import shutil

from pv import names
from pv import project
from pv import reqs
from pv import tlc

ENV = {'iproj': names.DEFAULT_IPROJ, 'iuser': names.DEFAULT_IUSER}


class Recorder(object):
    """Drives abstract requests through the real WSGI stack, logging one line
    per request with the full projected state before and after."""

    def __init__(self, app):
        self.app = app
        self.lines = []
        self.extras = []
        self._reset = True
        self._pre = None
        self.nid = 0
        self.env = dict(ENV)

    def new_history(self, wipe=True):
        if wipe:
            self.app.wipe()
        self._reset = True
        self._pre = None

    def desync(self, classes=(), traits=(), all_=False):
        """Harness action (not a request): remove rows of standard classes /
        traits directly, as a database that was synchronised by an older
        library version or not at all would lack them.  Must be followed by a
        'sync' step before any API request."""
        from sqlalchemy import text
        with self.app.engine.connect() as conn:
            if all_:
                conn.execute(text("DELETE FROM resource_classes WHERE id < 10000"))
                conn.execute(text("DELETE FROM traits WHERE name NOT LIKE 'CUSTOM_%'"))
            for n in classes:
                conn.execute(text("DELETE FROM resource_classes WHERE name = :n"), {'n': n})
            for n in traits:
                conn.execute(text("DELETE FROM traits WHERE name = :n"), {'n': n})
            conn.commit()
        self.app.reset_caches()
        self._pre = None
        self._reset = True

    def state(self):
        st, extra = project.dump(self.app.engine)
        return st, extra

    def step(self, req, concrete=None):
        """Issue one abstract request; returns the recorded line."""
        if self._pre is None:
            self._pre, _ = self.state()
        r = dict(req)
        if r['op'] in ('alloc_put', 'alloc_post', 'reshape'):
            r['env'] = dict(self.env)
        if r['op'] == 'sync':
            # start-up synchronisation is not an HTTP request
            method, path, hdrs, body = 'SYNC', 'deploy.update_database', {}, None
            try:
                self.app.sync()
                status, rh, rb = 200, {}, b''
            except Exception as ex:
                status, rh, rb = 500, {}, repr(ex).encode()
        else:
            method, path, hdrs, body = concrete or reqs.render(r)
            status, rh, rb = self.app.call(method, path, hdrs, body)
        post, extra = self.state()
        try:
            resp = reqs.parse(r, status, rh, rb)
        except Exception as ex:  # unparsable success body
            resp = {'status': status, 'code': '', 'body': {'unparsable': True}}
        self.nid += 1
        line = {'id': self.nid, 'reset': self._reset, 'pre': self._pre,
                'req': r, 'resp': resp, 'post': post}
        self.lines.append(line)
        self.extras.append({'id': self.nid, 'extra': extra,
                            'http': [method, path, status,
                                     rb.decode('utf-8', 'replace')[:400]]})
        self._pre = post
        self._reset = False
        return line


def validate(lines, keep=None, timeout=3600):
    """Run TLC on the lines.  Returns dict id -> verdict
    {diff: [...], mon: [...], exp_status, exp_code, exp_body?, exp_state?}.
    Raises tlc.TLCError when TLC itself fails (machinery failure)."""
    d = tempfile.mkdtemp(prefix='pv-trace-')
    try:
        path = os.path.join(d, 'trace.ndjson')
        with open(path, 'w') as f:
            for ln in lines:
                f.write(json.dumps(ln, sort_keys=True))
                f.write('\n')
        rc, out, wall = tlc.run('TraceAPI', 'TraceAPI.cfg',
                                env={'TRACE_FILE': path}, workers=1,
                                timeout=timeout, metadir=os.path.join(d, 'm'))
        if keep:
            shutil.copyfile(path, keep)
        verdicts = {}
        for v in tlc.printed_values(out, 'PV'):
            verdicts[v[1]] = {'diff': sorted(v[2]), 'mon': sorted(v[3]),
                              'exp_status': v[4], 'exp_code': v[5]}
        for v in tlc.printed_values(out, 'PVBODY'):
            verdicts[v[1]]['exp_body'] = v[2]
        for v in tlc.printed_values(out, 'PVSTATE'):
            verdicts[v[1]]['exp_state'] = v[2]
        if len(verdicts) != len(lines) or 'Error:' in out:
            tail = out[-3000:]
            raise tlc.TLCError(
                'TLC judged %d of %d lines (rc %s)\n%s' %
                (len(verdicts), len(lines), rc, tail))
        gen, dist = tlc.stats(out)
        return verdicts, {'states': gen, 'distinct': dist, 'wall_s': wall}
    finally:
        shutil.rmtree(d, ignore_errors=True)
