"""pv - harness binding the TLA+ specification family in /verif/spec to the
real openstack/placement code in /repo (see /verif/DESIGN.md)."""

# The tree under test: /repo, or the scratch copy named by PV_REPO (used only
# by tools/ that measure the checks against seeded / benign patches without
# touching /repo).  Registered commands never set PV_REPO.
import os as _os
import sys as _sys
REPO = _os.environ.get('PV_REPO', '/repo')
if REPO not in _sys.path:
    _sys.path.insert(0, REPO)
