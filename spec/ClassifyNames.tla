---------------------------- MODULE ClassifyNames ----------------------------
(***************************************************************************)
(* Pre-pass of the validation of traces that use names outside the pools   *)
(* of Data.tla: TLC classifies every candidate name (code points) with     *)
(* NameRules!LegalCustom; the legal ones become the custom-name pools of   *)
(* that validation run (PV_VOCAB).                                         *)
(***************************************************************************)
EXTENDS NameRules, TLC, Json, IOUtils
VARIABLES i
Log == ndJsonDeserialize(IOEnv.TRACE_FILE)
Init == i = 1
Next == /\ i <= Len(Log)
        /\ PrintT(<<"CN", Log[i].id, LegalCustom(Log[i].cp)>>)
        /\ i' = i + 1
        /\ TLCSet(1, i)
Spec == Init /\ [][Next]_i
AllConsumed == TLCGet(1) = Len(Log)
ASSUME TLCSet(1, 0)
=============================================================================
