------------------------------ MODULE TraceAPI ------------------------------
(***************************************************************************)
(* Trace validation: executions recorded from the real WSGI application    *)
(* (pv/trace.py) are checked to be behaviours of API.tla.  One NDJSON line *)
(* per request:                                                            *)
(*   [id, reset, pre, req, resp, post]                                     *)
(* with the complete projected database before and after the request.      *)
(* Step i is accepted iff Apply(pre, req) = [post, resp]; every property   *)
(* monitor of Props.tla is evaluated on the observed step whether or not   *)
(* it is accepted.  The verdict is total: every line yields one "PV" tuple *)
(* naming the failing parts; after a rejected line the checker re-bases on *)
(* the observed post-state so that the rest of the trace is still examined.*)
(***************************************************************************)
EXTENDS Props, Json, IOUtils

VARIABLES i, s

Log == ndJsonDeserialize(IOEnv.TRACE_FILE)

\* JSON carries sets as characteristic objects; the state uses real sets
NormState(j) ==
  [rp |-> j.rp, inv |-> j.inv, alloc |-> j.alloc, cons |-> j.cons,
   traits |-> [p \in DOMAIN j.traits |-> DOMAIN j.traits[p]],
   aggs |-> [p \in DOMAIN j.aggs |-> DOMAIN j.aggs[p]],
   classes |-> j.classes, ctraits |-> DOMAIN j.ctraits]

StateDiff(a, b) ==
     (IF a.rp = b.rp THEN {} ELSE
        IF DOMAIN a.rp = DOMAIN b.rp /\ \A p \in DOMAIN a.rp : [a.rp[p] EXCEPT !.gen = 0] = [b.rp[p] EXCEPT !.gen = 0]
        THEN {"rpgen"} ELSE {"rp"})
\cup (IF a.inv = b.inv THEN {} ELSE {"inv"})
\cup (IF a.alloc = b.alloc THEN {} ELSE {"alloc"})
\cup (IF a.cons = b.cons THEN {} ELSE
        IF DOMAIN a.cons = DOMAIN b.cons /\ \A c \in DOMAIN a.cons : [a.cons[c] EXCEPT !.gen = 0] = [b.cons[c] EXCEPT !.gen = 0]
        THEN {"consgen"} ELSE {"cons"})
\cup (IF a.traits = b.traits THEN {} ELSE {"traits"})
\cup (IF a.aggs = b.aggs THEN {} ELSE {"aggs"})
\cup (IF a.classes = b.classes THEN {} ELSE {"classes"})
\cup (IF a.ctraits = b.ctraits THEN {} ELSE {"ctraits"})

\* Generations are opaque to clients: their magnitude is not part of the
\* documented meaning (C10 states what must and must not move them).  A step
\* that differs from Apply only in how far a generation moved is reported as
\* "rpgen" / "consgen" / "bodygen", which only the C10 monitors judge.
HasKey(b, k) == k \in DOMAIN b
BodyNoGen(op, b) ==
  IF ~HasKey(b, "nobody") /\ op \in {"rp_create", "rp_update", "rp_get", "inv_list", "inv_get", "inv_post", "inv_put",
                                        "inv_put_all", "rp_usages", "agg_get", "agg_put", "rp_traits_get", "rp_traits_put"}
     /\ HasKey(b, "gen")
  THEN [b EXCEPT !.gen = 0]
  ELSE IF op = "rp_allocs" /\ HasKey(b, "allocs")
  THEN [b EXCEPT !.gen = 0, !.allocs = [c \in DOMAIN @ |-> [@[c] EXCEPT !.cgen = IF @ = -1 THEN -1 ELSE 0]]]
  ELSE IF op = "alloc_get" /\ HasKey(b, "allocs")
  THEN [b EXCEPT !.cgen = IF @ = -1 THEN -1 ELSE 0, !.allocs = [p \in DOMAIN @ |-> [@[p] EXCEPT !.gen = 0]]]
  ELSE b

RespDiff(a, b) ==
     (IF a.status = b.status THEN {} ELSE {"status"})
\cup (IF a.code = b.code THEN {} ELSE {"code"})
\cup (IF a.body = b.body THEN {} ELSE {"body"})

RespDiffOp(op, a, b) ==
     (IF a.status = b.status THEN {} ELSE {"status"})
\cup (IF a.code = b.code THEN {} ELSE {"code"})
\cup (IF a.body = b.body THEN {}
      ELSE IF a.status = b.status /\ BodyNoGen(op, a.body) = BodyNoGen(op, b.body) THEN {"bodygen"} ELSE {"body"})

Init == i = 1 /\ s = IF Len(Log) = 0 THEN EmptyState ELSE NormState(Log[1].pre)

Step ==
  /\ i <= Len(Log)
  /\ LET ln   == Log[i]
         pre  == NormState(ln.pre)
         post == NormState(ln.post)
         opaque == ln.req.op = "opaque"
         \* outside the alphabet of Apply: a refused request and a read change
         \* nothing; anything else is taken as observed
         keeps == ln.resp.status >= 400 \/ ln.req.method \in {"GET", "HEAD", "OPTIONS"}
         \* the reading of the request under which the observed status is the prescribed one
         alts == IF opaque THEN {} ELSE {x \in Readings(ln.req) \ {ln.req} : Apply(pre, x).resp.status = ln.resp.status}
         rq   == IF opaque \/ alts = {} THEN ln.req
                 ELSE IF Apply(pre, ln.req).resp.status = ln.resp.status THEN ln.req ELSE CHOOSE x \in alts : TRUE
         exp  == IF opaque THEN [s |-> IF keeps THEN pre ELSE post, resp |-> ln.resp]
                 ELSE Apply(pre, rq)
         chain == IF ln.reset THEN {} ELSE IF pre = s THEN {} ELSE {"chain"}
         diff == StateDiff(exp.s, post) \cup RespDiffOp(rq.op, exp.resp, ln.resp) \cup chain
         mon  == IF opaque
                 THEN StateMonitors(pre, post, ln.reset)
                      \cup (IF keeps /\ post # pre THEN {"C04_Step"} ELSE {})
                 ELSE StepMonitors(pre, rq, ln.resp, post, ln.reset)
     IN /\ PrintT(<<"PV", ln.id, diff, mon, exp.resp.status, exp.resp.code>>)
        /\ (diff \cap {"body"} # {} => PrintT(<<"PVBODY", ln.id, exp.resp.body>>))
        /\ (diff \ {"status", "code", "body", "chain"} # {} => PrintT(<<"PVSTATE", ln.id, exp.s>>))
        /\ s' = post
  /\ i' = i + 1
  /\ TLCSet(1, i)

Next == Step
Spec == Init /\ [][Next]_<<i, s>>

\* every line was consumed
AllConsumed == TLCGet(1) = Len(Log)
ASSUME TLCSet(1, 0)
=============================================================================
