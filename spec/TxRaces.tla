------------------------------ MODULE TxRaces ------------------------------
(***************************************************************************)
(* Tx.tla over a corpus of races: every line of the NDJSON file named by   *)
(* RACES_FILE is one race [id, db0, reqs, known, observed]; TLC explores    *)
(* every interleaving of every race and checks the C05 / C06 / C07         *)
(* properties on it.  `observed` (possibly empty) lists the outcomes       *)
(* [statuses, final] that the real application produced for that race      *)
(* under the scheduler; each terminal state reports which of them it       *)
(* explains, so that the harness can tell outcomes the model does not      *)
(* admit (a conformance failure) from outcomes only the model has.  An     *)
(* observed outcome is [statuses, final, commits]: the trace of committed  *)
(* transactions that changed the database is validated, not only the end.  *)
(***************************************************************************)
EXTENDS Tx, Json, IOUtils

VARIABLE rid

AllFixes == {"F2", "F3", "F13", "F14"}
NoFixes == {}
NoEnv == {}
CrashFault == {"crash", "fault"}
Without_F2 == AllFixes \ {"F2"}
Without_F3 == AllFixes \ {"F3"}
Without_F13 == AllFixes \ {"F13"}

Races == ndJsonDeserialize(IOEnv.RACES_FILE)

NormState(j) ==
  [rp |-> j.rp, inv |-> j.inv, alloc |-> j.alloc, cons |-> j.cons,
   traits |-> [p \in DOMAIN j.traits |-> DOMAIN j.traits[p]],
   aggs |-> [p \in DOMAIN j.aggs |-> DOMAIN j.aggs[p]],
   classes |-> j.classes, ctraits |-> DOMAIN j.ctraits]

RInit == \E n \in DOMAIN Races : rid = n /\ InitWith(Races[n].reqs, NormState(Races[n].db0))
RNext == Next /\ UNCHANGED rid
RSpec == RInit /\ [][RNext]_<<vars, rid>>

\* the recorded known finding F11 (consumer_generation 0 guessed for a consumer
\* that another, failing, request has transiently recorded) is tagged in the corpus
Inv_C07 == Races[rid].known # "" \/ SerializableTx
Inv_C05 == C05_Tx
Inv_C06 == C06_Tx
Inv_Struct == InvariantsTx /\ StatusesTx
Inv_Single == Refines /\ CrashConsistent /\ ExactlyOnceOrClean /\ InvariantsTx
Inv_C12 == Races[rid].known # "" \/ FinalC12

\* report, for every terminal state, which observed outcomes it explains
Report ==
  Terminated =>
    LET obs == Races[rid].observed
        \* an observed execution is explained by this behaviour if the statuses,
        \* the final database and the whole sequence of state-changing commits
        \* (who committed, database after it) coincide
        hit == {j \in DOMAIN obs : /\ obs[j].statuses = [k \in Procs |-> resp[k].status]
                                   /\ NormState(obs[j].final) = db
                                   /\ Len(obs[j].commits) = Len(hist)
                                   /\ \A n \in DOMAIN hist : /\ obs[j].commits[n].who = hist[n].who
                                                              /\ NormState(obs[j].commits[n].post) = hist[n].post}
    IN PrintT(<<"TXT", Races[rid].id, hit, [k \in Procs |-> resp[k].status]>>)
=============================================================================
