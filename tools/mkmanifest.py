#!/usr/bin/env python3
"""Regenerate /verif/MANIFEST.json from the check table (single source)."""
import json, os, sys
ROOT = os.path.dirname(os.path.dirname(os.path.abspath(__file__)))
sys.path.insert(0, ROOT)
from tools import manifest_data as md

checks = []
for pid in sorted(md.CLAIMED):
    c = md.CLAIMED[pid]
    checks.append({
        'property_id': pid,
        'quick_cmd': './check %s --tier quick' % pid,
        'thorough_cmd': './check %s --tier thorough' % pid,
        'evidence_file': '/verif/evidence/%s.json' % pid,
        'replay_cmd_template': './check %s --replay {path}' % pid,
        'engine': c['engine'],
        'level_claimed': {'category': c['category'], 'text': c['text'],
                          'design_ref': c['design_ref']},
        'level_note': c['note'],
        'technique': c['technique'],
    })
props = [json.loads(l)['id'] for l in open(os.path.join(ROOT, 'properties.jsonl'))]
na = [{'property_id': p, 'reason': md.NOT_CLAIMED.get(p, 'check not built yet')}
      for p in props if p not in md.CLAIMED]
m = {
    'version': 1,
    'setup_cmd': './setup.sh',
    'hooks': {
        'guard': 'PLACEMENT_VERIF',
        'enable': 'no source hooks in /repo: the checks observe the real code through the WSGI interface, SQLAlchemy engine events and table dumps; PLACEMENT_VERIF=1 is read by the harness only (set by ./check)',
        'baseline_off_cmd': 'python3 tools/baseline_check.py',
        'source_commits': [],
        'add_only': True,
    },
    'engines': md.ENGINES,
    'checks': checks,
    'not_applicable': na,
    'notes': md.NOTES,
}
json.dump(m, open(os.path.join(ROOT, 'MANIFEST.json'), 'w'), indent=1)
print('wrote MANIFEST.json: %d checks, %d not claimed' % (len(checks), len(na)))
