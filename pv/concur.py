"""Concurrency engine: all distinguishable transaction interleavings of two or
three real requests, recorded and judged by TLC (spec/TraceSerial.tla)."""
import json
import os
import random
import shutil
import tempfile
import time

from pv import project
from pv import reqs as reqmod
from pv import sched
from pv import tlc
from pv import trace as tracemod


def _kind_independent(a, b):
    """Two adjacent transactions of different requests commute when neither
    writes a table the other reads or writes (a transaction that wrote nothing
    visible - read-only or rolled back - only reads)."""
    if a[0] == b[0]:
        return False
    (ra, wa), (rb, wb) = a[3], b[3]
    return not (wa & (rb | wb)) and not (wb & ra)


class Explorer(object):
    """Stateless depth-first enumeration of schedules with a partial-order
    reduction: a schedule is abandoned (after having been run and judged) when
    its chosen prefix contains an adjacent pair of commuting read-only
    transactions in descending request order - the order-normalised twin of
    that schedule is explored instead."""

    def __init__(self, app, snapshot, areqs, limit=400, rnd=None, sample=None):
        self.app = app
        self.snapshot = snapshot
        self.names = [chr(ord('A') + i) for i in range(len(areqs))]
        self.areqs = areqs
        self.calls = {n: reqmod.render(r) for n, r in zip(self.names, areqs)}
        self.limit = limit
        self.rnd = rnd
        self.sample = sample
        self.runs = 0
        self.complete = True

    def run_one(self, prefix):
        app = self.app
        app.restore(self.snapshot)
        commits = []
        ctl = sched.Controller.get(app)

        def observe(name, txno, kind):
            if kind == 'W':
                st, _ = project.dump(app.engine)
                commits.append({'who': self.names.index(name) + 1, 'post': st})
        res, executed = sched.run_schedule(app, self.calls, prefix, observe)
        final, extra = project.dump(app.engine)
        resps = []
        for n, r in zip(self.names, self.areqs):
            rr = res[n]
            if rr['error'] is not None or rr['result'] is None:
                resps.append({'status': 599, 'code': 'escaped:%s' % type(rr['error']).__name__,
                              'body': reqmod.NOBODY})
                continue
            st, h, b = rr['result']
            try:
                resps.append(reqmod.parse(r, st, h, b))
            except Exception:
                resps.append({'status': st, 'code': '', 'body': {'unparsable': True}})
        self.runs += 1
        return {'executed': executed, 'resps': resps, 'commits': commits,
                'final': final, 'extra': extra}

    def explore(self):
        """Yield every explored execution."""
        work = [[]]
        seen_prefix = set()
        while work:
            if self.runs >= self.limit:
                self.complete = False
                return
            if self.sample and self.rnd and self.runs % 2 == 1:
                # races of three: every other run a random prefix, the others fewest preemptions first
                prefix = work.pop(self.rnd.randrange(len(work)))
            else:
                # fewest preemptions first (most races need one or two), then shortest
                k = min(range(len(work)), key=lambda j: (_switches(work[j]), len(work[j]), j))
                prefix = work.pop(k)
            out = self.run_one(prefix)
            ex = list(out['executed'])
            out['schedule'] = [e[0] for e in ex]
            out['prefix_len'] = len(prefix)
            yield out
            if not prefix and len(self.names) > 2:
                # races of three, the straggler family: one request stops after j of its
                # transactions, the other two run to completion one after the other, then it
                # goes on with what it has read.  (As prefixes these have two preemptions and
                # are long, so the order above reaches them late.)
                count = {n: sum(1 for e in ex if e[0] == n) for n in self.names}
                for x in self.names:
                    others = [n for n in self.names if n != x]
                    for j in range(1, count[x]):
                        for y, z in (others, others[::-1]):
                            o2 = self.run_one([x] * j + [y + '*', z + '*'])
                            o2['schedule'] = [e[0] for e in o2['executed']]
                            o2['prefix_len'] = 0
                            self.runs -= 1      # not charged to the budget of the enumeration
                            self.stragglers = getattr(self, 'stragglers', 0) + 1
                            yield o2
            pruned = False
            for j in range(1, len(prefix)):
                a, b = ex[j - 1], ex[j]
                if _kind_independent(a, b) and a[0] > b[0]:
                    pruned = True
                    break
            if pruned:
                continue
            for i in range(len(prefix), len(ex)):
                alive = {e[0] for e in ex[i:]}
                for t in sorted(alive - {ex[i][0]}):
                    p = tuple([e[0] for e in ex[:i]] + [t])
                    if p not in seen_prefix:
                        seen_prefix.add(p)
                        work.append(list(p))


def _switches(prefix):
    return sum(1 for a, b in zip(prefix, prefix[1:]) if a != b)


def validate(lines, timeout=3600):
    d = tempfile.mkdtemp(prefix='pv-serial-')
    try:
        path = os.path.join(d, 'serial.ndjson')
        with open(path, 'w') as f:
            for ln in lines:
                f.write(json.dumps(ln, sort_keys=True))
                f.write('\n')
        rc, out, wall = tlc.run('TraceSerial', 'TraceSerial.cfg',
                                env={'TRACE_FILE': path}, workers=1,
                                timeout=timeout, metadir=os.path.join(d, 'm'))
        verdicts = {}
        for v in tlc.printed_values(out, 'SV'):
            verdicts[v[1]] = sorted(v[2])
        if len(verdicts) != len(lines) or 'Error:' in out:
            raise tlc.TLCError('TraceSerial judged %d of %d lines (rc %s)\n%s'
                               % (len(verdicts), len(lines), rc, out[-3000:]))
        return verdicts, wall
    finally:
        shutil.rmtree(d, ignore_errors=True)


# ---------------------------------------------------------------------------
# corpus of racing requests

def base_state(s, kind=''):
    """The start state of the races: a parent with a child and a second root,
    partial usage, project / user / consumer type already recorded."""
    from pv import scenarios
    scenarios.basic_tree(s)
    s.invs('p3', VCPU=4, DISK_GB=scenarios.INV(50, reserved=10), MEMORY_MB=64)
    s.do(op='trait_put', v=39, name='CUSTOM_T1')
    s.do(op='rp_traits_put', v=39, u='p3', gen=s.gen('p3'), traits=['HW_CPU_X86_AVX'])
    s.do(op='agg_put', v=39, u='p3', gen=s.gen('p3'), aggs=['agg1'])
    s.do(op='rc_post', v=39, name='CUSTOM_RC1')
    s.put('c3', {'p1': {'VCPU': 1}, 'p3': {'DISK_GB': 5}})
    s.put('c4', {'p3': {'VCPU': 1}}, project='proj2', user='user2', ctype='MIGRATION')
    if kind == 'C06':
        # c4 one generation ahead of c3: a multi-consumer write must check each
        # consumer against its own generation
        s.put('c4', {'p3': {'VCPU': 1}}, project='proj2', user='user2', ctype='MIGRATION')
        # the newest allocation row belongs to a consumer no race touches: SQLite hands out
        # max(id)+1, and without it rows written by one request could get the ids another
        # request is about to delete (no production DBMS re-uses ids like that)
        s.put('c5', {'p2': {'DISK_GB': 1}}, project='proj3', user='user2')
    if kind == 'C05':
        # a provider without inventory (as the root of a tree often is)
        s.mk('p4')
        s.do(op='rp_traits_put', v=39, u='p4', gen=s.gen('p4'), traits=['CUSTOM_T1'])
    if kind == 'C09':
        # a deeper hierarchy for the races between moves
        s.mk('p7', 'p2')
        s.mk('p8', 'p1')


def provider_writers(s, u, gen_of):
    """Every kind of request that writes provider u; gen_of(kind) gives the
    generation a generation-carrying request sends."""
    from pv.scenarios import INV
    env = dict(tracemod.ENV)
    g = gen_of
    return {
        'inv_put_all': dict(op='inv_put_all', v=39, u=u, gen=g('inv_put_all'),
                            invs=[{'rc': 'VCPU', 'inv': INV(6)}, {'rc': 'DISK_GB', 'inv': INV(50, reserved=10)},
                                  {'rc': 'MEMORY_MB', 'inv': INV(64)}]),
        'inv_put': dict(op='inv_put', v=39, u=u, rc='VCPU', gen=g('inv_put'), inv=INV(2)),
        'inv_post': dict(op='inv_post', v=39, u=u, rc='SRIOV_NET_VF', inv=INV(8)),
        'inv_del': dict(op='inv_del', v=39, u=u, rc='MEMORY_MB'),
        'inv_del_all': dict(op='inv_del_all', v=39, u=u),
        'rp_traits_put': dict(op='rp_traits_put', v=39, u=u, gen=g('rp_traits_put'),
                              traits=['CUSTOM_T1', 'STORAGE_DISK_SSD']),
        'rp_traits_put_same': dict(op='rp_traits_put', v=39, u=u, gen=g('rp_traits_put_same'),
                                   traits=['HW_CPU_X86_AVX']),
        'rp_traits_del': dict(op='rp_traits_del', v=39, u=u),
        'agg_put': dict(op='agg_put', v=39, u=u, gen=g('agg_put'), aggs=['agg2', 'agg3']),
        'agg_put_legacy': dict(op='agg_put', v=18, u=u, gen=-1, aggs=['agg2']),
        'reshape': dict(op='reshape', v=39, env=env,
                        invs=[{'u': u, 'gen': g('reshape'),
                               'invs': [{'rc': 'VCPU', 'inv': INV(4)},
                                        {'rc': 'DISK_GB', 'inv': INV(60, reserved=10)}]}],
                        entries=[]),
        # the provider named with no inventories at all
        'reshape_empty': dict(op='reshape', v=39, env=env, invs=[{'u': u, 'gen': g('reshape_empty'), 'invs': []}],
                              entries=[]),
        # ... while the same reshape changes another provider
        'reshape_empty_and_p2': dict(op='reshape', v=39, env=env,
                                     invs=[{'u': u, 'gen': g('reshape_empty'), 'invs': []},
                                           {'u': 'p2', 'gen': s.gen('p2'), 'invs': [{'rc': 'DISK_GB', 'inv': INV(120)}]}],
                                     entries=[]),
        'alloc_put': dict(op='alloc_put', v=39, env=env,
                          **s.entry('c1', {u: {'VCPU': 2}}, cgen=-1)),
        # a rename touches no generation
        'rename': dict(op='rp_update', v=39, u=u, name=u + '-renamed', parent=''),
        # the provider named in the inventories *and* in the allocations part
        'reshape_both': dict(op='reshape', v=39, env=env,
                             invs=[{'u': u, 'gen': g('reshape_both'),
                                    'invs': [{'rc': 'VCPU', 'inv': INV(4)},
                                             {'rc': 'DISK_GB', 'inv': INV(50, reserved=10)},
                                             {'rc': 'MEMORY_MB', 'inv': INV(64)}]}],
                             entries=[s.entry('c4', {u: {'VCPU': 1, 'MEMORY_MB': 8}},
                                              project='proj2', user='user2', ctype='MIGRATION')]),
    }


def corpus(kind, s, tier, rnd):
    """List of (label, [abstract requests]) for a property's races."""
    env = dict(tracemod.ENV)
    out = []
    cur = s.gen('p3')
    if kind == 'C05':
        kinds = ['inv_put_all', 'inv_put', 'inv_post', 'inv_del', 'inv_del_all',
                 'rp_traits_put', 'rp_traits_put_same', 'rp_traits_del',
                 'agg_put', 'agg_put_legacy', 'reshape', 'reshape_both', 'alloc_put', 'rename']
        same = provider_writers(s, 'p3', lambda k: cur)
        stale = provider_writers(s, 'p3', lambda k: cur - 1)
        future = provider_writers(s, 'p3', lambda k: cur + 1)
        # generation 0 is a stale generation like any other (and falsy in python)
        zero = provider_writers(s, 'p3', lambda k: 0)
        assert cur >= 2
        for i, a in enumerate(kinds):
            for b in kinds[i:]:
                ra, rb = dict(same[a]), dict(same[b])
                if a == b == 'alloc_put':
                    rb = dict(op='alloc_put', v=39, env=env, **s.entry('c2', {'p3': {'VCPU': 1}}, cgen=-1))
                out.append(('%s|%s same-gen' % (a, b), [ra, rb]))
        carriers = ['inv_put_all', 'inv_put', 'rp_traits_put', 'agg_put', 'reshape', 'reshape_both']
        for a in carriers:
            for b in carriers:
                if tier == 'thorough' or rnd.random() < 0.3:
                    out.append(('%s(stale)|%s' % (a, b), [dict(stale[a]), dict(same[b])]))
                if tier == 'thorough' or rnd.random() < 0.15:
                    out.append(('%s(future)|%s' % (a, b), [dict(future[a]), dict(same[b])]))
            out.append(('%s(zero)|rename' % a, [dict(zero[a]), dict(same['rename'])]))
            if tier == 'thorough':
                for b in carriers:
                    out.append(('%s(zero)|%s' % (a, b), [dict(zero[a]), dict(same[b])]))
        # the same on a provider that has no inventory and is to have none
        g4 = s.gen('p4')
        bare = provider_writers(s, 'p4', lambda k: g4)
        bare0 = provider_writers(s, 'p4', lambda k: g4 - 1)
        for a in ('reshape_empty', 'reshape_empty_and_p2'):
            for b in ('reshape_empty', 'rp_traits_put', 'agg_put', 'inv_post', 'inv_put_all', 'rp_traits_del', 'agg_put_legacy'):
                out.append(('bare %s|%s same-gen' % (a, b), [dict(bare[a]), dict(bare[b])]))
            out.append(('bare %s(stale)|rp_traits_put' % a, [dict(bare0[a]), dict(bare['rp_traits_put'])]))
        # three in flight together, same generation
        trip = [('inv_put_all', 'rp_traits_put', 'agg_put'), ('inv_put', 'inv_put', 'reshape'),
                ('rp_traits_put', 'rp_traits_put', 'rp_traits_del'), ('inv_put_all', 'alloc_put', 'agg_put')]
        for t in trip:
            out.append(('|'.join(t) + ' same-gen', [dict(same[k]) for k in t]))
    elif kind == 'C06':
        def put(c, allocs, cgen, v=39, **kw):
            return dict(op='alloc_put', v=v, env=env, **s.entry(c, allocs, cgen=cgen, **kw))

        def post(entries, v=39):
            return dict(op='alloc_post', v=v, env=env, entries=entries)

        def reshape(entries):
            from pv.scenarios import INV
            return dict(op='reshape', v=39, env=env,
                        invs=[{'u': 'p2', 'gen': s.gen('p2'), 'invs': [{'rc': 'DISK_GB', 'inv': INV(100)}]}],
                        entries=entries)
        g3 = s.cgen('c3')
        new_variants = {
            'put_null': put('c1', {'p1': {'VCPU': 2}}, -1),
            'put_null_b': put('c1', {'p3': {'VCPU': 1}}, -1, project='proj2'),
            'put_null_toobig': put('c1', {'p1': {'VCPU': 200}}, -1),
            'put_gen0': put('c1', {'p1': {'VCPU': 3}}, 0),
            'put_null_v28': put('c1', {'p2': {'DISK_GB': 3}}, -1, v=28),
            'post_null': post([s.entry('c1', {'p1': {'VCPU': 1}}, cgen=-1),
                               s.entry('c2', {'p2': {'DISK_GB': 1}}, cgen=-1)]),
            'reshape_null': reshape([s.entry('c1', {'p2': {'DISK_GB': 2}}, cgen=-1)]),
            'put_null_empty': put('c1', {}, -1),
            'put_null_typed': put('c1', {'p3': {'VCPU': 1}}, -1, ctype='MIGRATION'),
        }
        old_variants = {
            'put_cur': put('c3', {'p1': {'VCPU': 2}}, g3),
            'put_cur_b': put('c3', {'p3': {'DISK_GB': 7}}, g3, project='proj2'),
            'put_cur_empty': put('c3', {}, g3),
            'put_stale': put('c3', {'p1': {'VCPU': 4}}, g3 - 1),
            'put_next': put('c3', {'p1': {'VCPU': 5}}, g3 + 1),
            'put_zero': put('c3', {'p1': {'VCPU': 6}}, 0),
            'post_cur': post([s.entry('c3', {'p1': {'VCPU': 3}}, cgen=g3),
                              s.entry('c2', {'p2': {'DISK_GB': 1}}, cgen=-1)]),
            'reshape_cur': reshape([s.entry('c3', {'p2': {'DISK_GB': 4}}, cgen=g3)]),
            'del': dict(op='alloc_del', v=39, c='c3'),
            # the consumer made anew (after another request emptied it) under another project
            'put_recreate': put('c3', {'p3': {'VCPU': 1}}, -1, project='proj2', user='user2'),
            'post_c3_c4': post([s.entry('c3', {'p1': {'VCPU': 2}}, cgen=g3),
                                s.entry('c4', {'p3': {'VCPU': 2}}, cgen=s.cgen('c4'), project='proj2', user='user2',
                                        ctype='MIGRATION')]),
            'reshape_c3_c4': reshape([s.entry('c3', {'p2': {'DISK_GB': 2}}, cgen=g3),
                                      s.entry('c4', {'p2': {'DISK_GB': 3}}, cgen=s.cgen('c4'), project='proj2',
                                              user='user2', ctype='MIGRATION')]),
        }
        for vs in (new_variants, old_variants):
            ks = sorted(vs)
            for i, a in enumerate(ks):
                for b in ks[i:]:
                    if tier == 'quick' and rnd.random() < 0.45 and not (a.startswith('put') and b.startswith('put')) \
                            and not ({a, b} & {'post_c3_c4', 'reshape_c3_c4'} and {a, b} & {'put_cur', 'put_cur_b'}):
                        continue
                    out.append(('%s|%s' % (a, b), [dict(vs[a]), dict(vs[b])]))
        out.append(('put_null|put_null_b|put_gen0', [dict(new_variants[k]) for k in ('put_null', 'put_null_b', 'put_gen0')]))
        # one of three fails for its own reason and removes the consumer it created
        out.append(('put_null|put_null_toobig|put_null_b', [dict(new_variants[k]) for k in ('put_null', 'put_null_toobig', 'put_null_b')]))
        out.append(('put_cur|put_cur_b|put_cur_empty', [dict(old_variants[k]) for k in ('put_cur', 'put_cur_b', 'put_cur_empty')]))
        # emptied and made anew while a third request still holds what it read: the new consumer
        # passes through the generations the old one had
        out.append(('put_cur|put_cur_empty|put_recreate', [dict(old_variants[k]) for k in ('put_cur', 'put_cur_empty', 'put_recreate')]))
        out.append(('post_cur|del|put_recreate', [dict(old_variants[k]) for k in ('post_cur', 'del', 'put_recreate')]))
    elif kind == 'C19':
        # creations of custom names racing: identifiers stay unique, an existing name is never duplicated
        reqs19 = {
            'post_rc2': dict(op='rc_post', v=39, name='CUSTOM_RC2'),
            'post_rc3': dict(op='rc_post', v=39, name='CUSTOM_RC3'),
            'put_rc2': dict(op='rc_put', v=39, name='CUSTOM_RC2', newname=''),
            'put_rc4': dict(op='rc_put', v=39, name='CUSTOM_RC4', newname=''),
            'rename_rc1_rc2': dict(op='rc_put', v=6, name='CUSTOM_RC1', newname='CUSTOM_RC2'),
            'del_rc1': dict(op='rc_del', v=39, name='CUSTOM_RC1'),
            'trait_t2': dict(op='trait_put', v=39, name='CUSTOM_T2'),
            'trait_t2_again': dict(op='trait_put', v=39, name='CUSTOM_T2'),
            'trait_t3': dict(op='trait_put', v=39, name='CUSTOM_T3'),
        }
        ks = sorted(reqs19)
        for i, a in enumerate(ks):
            for b in ks[i:]:
                if (a.startswith('trait')) != (b.startswith('trait')):
                    continue
                out.append(('%s|%s' % (a, b), [dict(reqs19[a]), dict(reqs19[b])]))
        out.append(('post_rc2|put_rc2|post_rc3', [dict(reqs19[k]) for k in ('post_rc2', 'put_rc2', 'post_rc3')]))
    elif kind == 'MIX':
        # Requests below 1.28 carry no consumer generation and are outside C06 / C07 (the
        # documentation warns against mixing them with 1.28+ writes); what a *rejected* one may
        # do to a consumer another request creates is still bounded by C04, C08 and C12.
        def put(c, allocs, cgen, v=39, **kw):
            return dict(op='alloc_put', v=v, env=env, **s.entry(c, allocs, cgen=cgen, **kw))
        old = {
            'put_v27_toobig': put('c1', {'p1': {'VCPU': 200}}, -1, v=27),
            'put_v12_toobig': put('c1', {'p1': {'VCPU': 200}}, -1, v=12),
            'put_v27_unknown_provider': put('c1', {'p9': {'VCPU': 1}}, -1, v=27),
            'post_v27_toobig': dict(op='alloc_post', v=27, env=env,
                                    entries=[s.entry('c1', {'p1': {'VCPU': 200}}, cgen=-1)]),
        }
        new = {
            'put_null_typed': put('c1', {'p3': {'VCPU': 1}}, -1, ctype='MIGRATION'),
            'put_null_v28': put('c1', {'p2': {'DISK_GB': 3}}, -1, v=28),
            'post_null': dict(op='alloc_post', v=39, env=env,
                              entries=[s.entry('c1', {'p1': {'VCPU': 1}}, cgen=-1, ctype='VOLUME')]),
        }
        for a in sorted(old):
            for b in sorted(new):
                out.append(('%s|%s' % (a, b), [dict(old[a]), dict(new[b])]))
    elif kind == 'C09':
        # concurrent moves, creations and deletions in the hierarchy
        # base: p1 <- p2, p3 root; add a deeper tree first (done by the caller's base state: p1 <- p2)
        mv = lambda u, par, name=None: dict(op='rp_update', v=39, u=u, name=name or u, parent=par)
        reqs9 = {
            'p2_under_p3': mv('p2', 'p3'),
            'p2_unparent': mv('p2', 'null'),
            'p2_rename': mv('p2', '', name='p2x'),
            'p3_under_p2': mv('p3', 'p2'),
            'p3_under_p1': mv('p3', 'p1'),
            'p1_under_p3': mv('p1', 'p3'),
            'child_of_p2': dict(op='rp_create', v=39, u='p5', name='p5', parent='p2'),
            'child_of_p3': dict(op='rp_create', v=39, u='p6', name='p6', parent='p3'),
            'del_p2': dict(op='rp_delete', v=39, u='p2'),
            'del_p3': dict(op='rp_delete', v=39, u='p3'),
            'p2_under_p1_again': mv('p2', 'p1'),
            'p2_under_p8': mv('p2', 'p8'),
            'p7_under_p3': mv('p7', 'p3'),
            'p8_under_p7': mv('p8', 'p7'),
        }
        ks = sorted(reqs9)
        for i, a in enumerate(ks):
            for b in ks[i + 1:]:
                out.append(('%s|%s' % (a, b), [dict(reqs9[a]), dict(reqs9[b])]))
        out.append(('p2_under_p3|p3_under_p2|child_of_p2', [dict(reqs9[k]) for k in ('p2_under_p3', 'p3_under_p2', 'child_of_p2')]))
    elif kind == 'C08':
        from pv.scenarios import INV

        def put(c, allocs, cgen=None, **kw):
            return dict(op='alloc_put', v=39, env=env, **s.entry(c, allocs, cgen=cgen, **kw))
        # p2: child of p1 with DISK_GB 100, nobody uses it; p4 does not exist yet
        removers = {
            'del_p2': dict(op='rp_delete', v=39, u='p2'),
            'del_inv_p2_disk': dict(op='inv_del', v=39, u='p2', rc='DISK_GB'),
            'del_invs_p2': dict(op='inv_del_all', v=39, u='p2'),
            'drop_disk_p2': dict(op='inv_put_all', v=39, u='p2', gen=s.gen('p2'), invs=[{'rc': 'VCPU', 'inv': INV(2)}]),
            'reshape_drop_disk_p2': dict(op='reshape', v=39, env=env,
                                         invs=[{'u': 'p2', 'gen': s.gen('p2'), 'invs': []}], entries=[]),
            'del_class': dict(op='rc_del', v=39, name='CUSTOM_RC1'),
            'del_trait': dict(op='trait_del', v=39, name='CUSTOM_T1'),
            'del_p1': dict(op='rp_delete', v=39, u='p1'),
        }
        users = {
            'use_p2_disk': put('c1', {'p2': {'DISK_GB': 5}}, -1),
            'child_of_p2': dict(op='rp_create', v=39, u='p4', name='p4', parent='p2'),
            'move_under_p2': dict(op='rp_update', v=39, u='p3', name='p3', parent='p2'),
            'inv_with_class': dict(op='inv_post', v=39, u='p2', rc='CUSTOM_RC1', inv=INV(3)),
            'trait_on_p2': dict(op='rp_traits_put', v=39, u='p2', gen=s.gen('p2'), traits=['CUSTOM_T1']),
            'put_all_with_class': dict(op='inv_put_all', v=39, u='p2', gen=s.gen('p2'),
                                       invs=[{'rc': 'DISK_GB', 'inv': INV(100)}, {'rc': 'CUSTOM_RC1', 'inv': INV(3)}]),
            'reshape_with_class': dict(op='reshape', v=39, env=env,
                                       invs=[{'u': 'p2', 'gen': s.gen('p2'),
                                              'invs': [{'rc': 'DISK_GB', 'inv': INV(100)}, {'rc': 'CUSTOM_RC1', 'inv': INV(3)}]}],
                                       entries=[]),
            'reshape_with_class_clearing': dict(op='reshape', v=39, env=env,
                                                invs=[{'u': 'p2', 'gen': s.gen('p2'),
                                                       'invs': [{'rc': 'DISK_GB', 'inv': INV(100)}, {'rc': 'CUSTOM_RC1', 'inv': INV(3)}]}],
                                                entries=[s.entry('c4', {}, project='proj2', user='user2', ctype='MIGRATION')]),
            'aggs_on_p2': dict(op='agg_put', v=39, u='p2', gen=s.gen('p2'), aggs=['agg2']),
            'aggs_on_p2_legacy': dict(op='agg_put', v=18, u='p2', gen=-1, aggs=['agg2']),
            'inv_on_p2': dict(op='inv_post', v=39, u='p2', rc='VCPU', inv=INV(2)),
            'post_use_p2': dict(op='alloc_post', v=39, env=env,
                                entries=[s.entry('c1', {'p2': {'DISK_GB': 1}}, cgen=-1),
                                         s.entry('c2', {'p1': {'VCPU': 1}}, cgen=-1)]),
        }
        for a in sorted(removers):
            for b in sorted(users):
                out.append(('%s|%s' % (a, b), [dict(removers[a]), dict(users[b])]))
    elif kind == 'C07':
        from pv.scenarios import INV

        def put(c, allocs, cgen=None, **kw):
            return dict(op='alloc_put', v=39, env=env, **s.entry(c, allocs, cgen=cgen, **kw))
        # p3: VCPU 4 (1 used), DISK_GB capacity 40 (5 used); p1: VCPU capacity 16 (1 used)
        claims = {
            'c1_vcpu2': put('c1', {'p3': {'VCPU': 2}}, -1),
            'c2_vcpu2': put('c2', {'p3': {'VCPU': 2}}, -1),
            'c2_vcpu3': put('c2', {'p3': {'VCPU': 3}}, -1),
            'c1_multi': put('c1', {'p3': {'VCPU': 1, 'DISK_GB': 30}, 'p1': {'VCPU': 10}}, -1),
            'c2_multi': put('c2', {'p3': {'DISK_GB': 10}, 'p1': {'VCPU': 6}}, -1),
            'c3_grow': put('c3', {'p1': {'VCPU': 1}, 'p3': {'DISK_GB': 5, 'VCPU': 3}}),
            'c4_move': put('c4', {'p1': {'VCPU': 15}}, project='proj2', user='user2', ctype='MIGRATION'),
            'post_c1c2': dict(op='alloc_post', v=39, env=env,
                              entries=[s.entry('c1', {'p3': {'VCPU': 1}}, cgen=-1),
                                       s.entry('c2', {'p3': {'VCPU': 2}}, cgen=-1)]),
            'c4_del': dict(op='alloc_del', v=39, c='c4'),
            # a claim made through the reshaper (inventories of p3 re-stated unchanged)
            'reshape_c1_vcpu2': dict(op='reshape', v=39, env=env,
                                     invs=[{'u': 'p3', 'gen': cur,
                                            'invs': [{'rc': 'VCPU', 'inv': INV(4)},
                                                     {'rc': 'DISK_GB', 'inv': INV(50, reserved=10)},
                                                     {'rc': 'MEMORY_MB', 'inv': INV(64)}]}],
                                     entries=[s.entry('c1', {'p3': {'VCPU': 2}}, cgen=-1)]),
        }
        guarded = {
            'reshape_shrink_vcpu': dict(op='reshape', v=39, env=env,
                                        invs=[{'u': 'p3', 'gen': cur,
                                               'invs': [{'rc': 'VCPU', 'inv': INV(2)},
                                                        {'rc': 'DISK_GB', 'inv': INV(50, reserved=10)},
                                                        {'rc': 'MEMORY_MB', 'inv': INV(64)}]}],
                                        entries=[]),
            'shrink_vcpu': dict(op='inv_put', v=39, u='p3', rc='VCPU', gen=cur, inv=INV(2)),
            'shrink_all': dict(op='inv_put_all', v=39, u='p3', gen=cur,
                               invs=[{'rc': 'VCPU', 'inv': INV(3)}, {'rc': 'DISK_GB', 'inv': INV(20)}]),
            'traits': dict(op='rp_traits_put', v=39, u='p3', gen=cur, traits=['CUSTOM_T1']),
            'aggs': dict(op='agg_put', v=39, u='p3', gen=cur, aggs=['agg2']),
            'drop_vcpu': dict(op='inv_put_all', v=39, u='p3', gen=cur,
                              invs=[{'rc': 'DISK_GB', 'inv': INV(50, reserved=10)}]),
        }
        ck = sorted(claims)
        for i, a in enumerate(ck):
            for b in ck[i + 1:]:
                if a[:2] == b[:2] and a[0] == 'c':
                    continue
                if {a, b} == {'reshape_c1_vcpu2', 'c1_vcpu2'} or {a, b} == {'reshape_c1_vcpu2', 'c1_multi'}:
                    continue        # same consumer, both expecting none: covered by the C06 races
                out.append(('%s|%s' % (a, b), [dict(claims[a]), dict(claims[b])]))
        for a in ck:
            for b in sorted(guarded):
                if tier == 'quick' and rnd.random() < 0.5:
                    continue
                out.append(('%s|%s' % (a, b), [dict(claims[a]), dict(guarded[b])]))
        # writes carrying consumer generations for one and the same consumer
        for label, areqs in corpus('C06', s, tier, rnd):
            if any(r['op'] == 'alloc_del' for r in areqs):
                continue        # DELETE carries no generation: outside C07
            if tier == 'quick' and len(areqs) < 3 and rnd.random() < 0.5:
                continue
            out.append(('same-consumer ' + label, areqs))
        out.append(('c1_vcpu2|c2_vcpu2|shrink_vcpu', [dict(claims['c1_vcpu2']), dict(claims['c2_vcpu2']), dict(guarded['shrink_vcpu'])]))
        out.append(('c1_multi|c2_multi|c4_move', [dict(claims['c1_multi']), dict(claims['c2_multi']), dict(claims['c4_move'])]))
    return out


def worker(job):
    """Explore the races job['labels'] (indices into the corpus) and judge
    every execution with TLC."""
    import random as _random
    from pv.app import get_app
    from pv import scenarios
    app = get_app()
    rec = tracemod.Recorder(app)
    rec.new_history()
    s = scenarios.S(rec, _random.Random(0))
    base_state(s, job['kind'])
    # make sure the pre-existing names exist so that requests are short
    app.snapshot('base')
    db0 = rec.state()[0]
    rnd = _random.Random(job['seed'])
    corp = corpus(job['kind'], s, job['tier'], _random.Random(job['corpus_seed']))
    lines = []
    meta = {}
    t0 = time.time()
    complete = 0
    observed = {}
    complete_idx = []
    for idx in job['indices']:
        label, areqs = corp[idx]
        limit = job['limit3'] if len(areqs) > 2 else job['limit']
        ex = Explorer(app, 'base', areqs, limit=limit, rnd=rnd,
                      # races of three: sampled under a small budget, enumerated (fewest preemptions
                      # first, up to the limit) in the thorough tier
                      sample=len(areqs) > 2 and job.get('tier') != 'thorough')
        n0 = len(lines)
        for o in ex.explore():
            lid = len(lines) + 1
            lines.append({'id': lid, 'db0': db0, 'reqs': areqs, 'resps': o['resps'],
                          'commits': o['commits'], 'final': o['final'],
                          # rows the projection cannot show: duplicate allocation rows, rows of missing providers
                          'residue': len(o['extra'].get('dangling', []))})
            meta[lid] = {'label': label, 'schedule': ''.join(o['schedule']),
                         'executed': [[e[0], e[1], e[2], sorted(e[3][0]), sorted(e[3][1])] for e in o['executed']]}
            # the commits that changed the abstract database, in commit order
            eff = []
            prev = db0
            for cm in o['commits']:
                if cm['post'] != prev:
                    eff.append({'who': cm['who'], 'post': cm['post']})
                    prev = cm['post']
            key = json.dumps([[r['status'] for r in o['resps']], o['final'], eff], sort_keys=True)
            ob = observed.setdefault(idx, {})
            if key not in ob:
                ob[key] = {'statuses': [r['status'] for r in o['resps']],
                           'final': o['final'], 'commits': eff,
                           'schedule': ''.join(o['schedule'])}
        complete += 1 if ex.complete else 0
        if ex.complete:
            complete_idx.append(idx)
    t_run = time.time() - t0
    verdicts, wall = validate(lines) if lines else ({}, 0)
    bad = []
    outcomes = {}
    for ln in lines:
        v = verdicts[ln['id']]
        m = meta[ln['id']]
        key = '%s %s' % (m['label'], [r['status'] for r in ln['resps']])
        outcomes[key] = outcomes.get(key, 0) + 1
        esc = [r for r in ln['resps'] if r['status'] >= 500]
        if v or esc:
            bad.append({'label': m['label'], 'schedule': m['schedule'],
                        'executed': m['executed'], 'monitors': v,
                        'statuses': [r['status'] for r in ln['resps']],
                        'codes': [r['code'] for r in ln['resps']],
                        'reqs': ln['reqs'], 'db0': db0, 'final': ln['final'],
                        'commits_by': [c['who'] for c in ln['commits']]})
    return {'n': len(lines), 'races': len(job['indices']), 'complete': complete,
            'bad': bad, 'outcomes': outcomes, 't_run': t_run, 't_tlc': wall,
            'observed': {i: list(d.values()) for i, d in observed.items()},
            'complete_idx': complete_idx,
            'sample': [{'race': meta[1]['label'], 'schedule': meta[1]['schedule'],
                        'statuses': [r['status'] for r in lines[0]['resps']]}] if lines else []}


# ---------------------------------------------------------------------------
# Tx.tla over the same corpus (design level + conformance of outcomes)

def race_known_tag(areqs, db0):
    """Races on which Tx.tla's serializability invariant is not demanded:
    DELETE /allocations carries no generation and is outside C06/C07's
    quantifier (two DELETEs both answer 204); F11 is the recorded finding."""
    if any(r['op'] == 'alloc_del' for r in areqs):
        return 'DEL'
    for r in areqs:
        ents = [r] if r['op'] == 'alloc_put' else r.get('entries', [])
        if r['op'] not in ('alloc_put', 'alloc_post', 'reshape'):
            continue
        for e in ents:
            if e.get('cgen') == 0 and e['c'] not in db0['cons']:
                return 'F11'
    return ''


def corpus_with_state(kind, tier, seed):
    """(db0, corpus) built against the real application (deterministic)."""
    import random as _random
    from pv.app import get_app
    from pv import scenarios
    app = get_app()
    rec = tracemod.Recorder(app)
    rec.new_history()
    s = scenarios.S(rec, _random.Random(0))
    base_state(s, kind)
    db0 = rec.state()[0]
    return db0, corpus(kind, s, tier, _random.Random(seed))


def run_tx_model(races, cfg='TxRaces.cfg', timeout=3000, workers=8):
    """races: list of dicts [id, db0, reqs, known, observed].  Returns
    (ok, stats, report, tail) where report maps race id -> list of (hit set,
    statuses) over the terminal states TLC reached."""
    d = tempfile.mkdtemp(prefix='pv-tx-')
    try:
        path = os.path.join(d, 'races.ndjson')
        with open(path, 'w') as f:
            for r in races:
                f.write(json.dumps(r, sort_keys=True))
                f.write('\n')
        rc, out, wall = tlc.run('TxRaces', cfg, env={'RACES_FILE': path},
                                workers=workers, timeout=timeout,
                                metadir=os.path.join(d, 'm'), jvm=['-Xmx6g'])
        gen, dist = tlc.stats(out)
        ok = 'Model checking completed. No error has been found' in out
        report = {}
        for v in tlc.printed_values(out, 'TXT'):
            report.setdefault(v[1], []).append((sorted(v[2]), list(v[3])))
        return ok, {'transitions': gen, 'states': dist, 'wall_s': round(wall, 1)}, report, out[-3000:]
    finally:
        shutil.rmtree(d, ignore_errors=True)
