------------------------------- MODULE Names -------------------------------
(***************************************************************************)
(* C19, character level: the state machine over the rules of NameRules.tla *)
(* (the stored class names and trait names, and the four creating          *)
(* operations), model checked through MC_Names.                            *)
(***************************************************************************)
EXTENDS NameRules

\* ---- the state machine -------------------------------------------------
CONSTANTS Universe,       \* names the model draws from
          StdClasses, StdTraits, RenameSource
VARIABLES classes, traits, last
vars == <<classes, traits, last>>

NInit == classes = StdClasses \cup {RenameSource} /\ traits = StdTraits
         /\ last = [st |-> 0, existed |-> FALSE, legal |-> FALSE]

Create(kind, cp) ==
  LET tbl == IF IsClassKind(kind) THEN classes ELSE traits
      existed == cp \in tbl
      st == ExpectedStatus(kind, cp, existed) IN
  /\ kind = "rc_rename" => RenameSource \in classes
  /\ last' = [st |-> st, existed |-> existed, legal |-> LegalCustom(cp)]
  /\ IF Creates(kind, cp, existed)
     THEN IF kind = "trait_put" THEN traits' = traits \cup {cp} /\ UNCHANGED classes
          ELSE /\ classes' = (IF kind = "rc_rename" THEN classes \ {RenameSource} ELSE classes) \cup {cp}
               /\ UNCHANGED traits
     ELSE UNCHANGED <<classes, traits>>

NNext == \E k \in Kinds, cp \in Universe : Create(k, cp)
NSpec == NInit /\ [][NNext]_vars

\* C19: whatever was created through the API is a legal custom name
C19_CustomNamesLegal ==
  /\ \A c \in classes \ (StdClasses \cup {RenameSource}) : LegalCustom(c)
  /\ \A t \in traits \ StdTraits : LegalCustom(t)
\* standard names are never removed by a creating operation
C19_StandardKept == StdClasses \subseteq classes /\ StdTraits \subseteq traits
\* creating an existing name is the idempotent 204 or a 409 - and a name that
\* is not legal is answered 400 whether or not something of that name exists
C19_ExistingAnswered == last.existed /\ last.legal => last.st \in {204, 409}
C19_IllegalRefused == last.st # 0 /\ ~last.legal => last.st = 400
=============================================================================
