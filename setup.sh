#!/bin/sh
# Offline set-up: parse every specification module and run the binding self-test.
set -e
cd "$(dirname "$0")"
for f in spec/*.tla; do
  m=$(basename "$f")
  out=$(cd spec && tla-sany "$m" 2>&1) || { echo "$out"; exit 1; }
  case "$out" in *"*** Errors"*|*"Fatal errors"*) echo "$out"; exit 1;; esac
done
PYTHONHASHSEED=0 PYTHONPATH=. /venv/bin/python -m pv.selftest
echo "setup ok"
