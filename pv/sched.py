"""Deterministic transaction-granularity scheduler for real requests.

Two or three requests run in threads against the real WSGI application; the
SQLAlchemy engine events are used to park a thread whenever it is about to
open a *top-level* database transaction, and the controller decides which
parked thread may run its next transaction.  Between transactions a thread
executes only thread-local Python, and at most one top-level transaction is
open at any time (transactions atomic and isolated, the premise of C05-C07).

The same events number the SQL statements of a request, which pv/faults.py
uses to inject faults and crashes.
"""
import re
import threading
import time

from sqlalchemy import event


_WRITE_TABLE = re.compile(r'^\s*(?:INSERT\s+(?:OR\s+\w+\s+)?INTO|UPDATE|DELETE\s+FROM)\s+"?(\w+)', re.I)
_READ_TABLE = re.compile(r'(?:FROM|JOIN)\s+"?(\w+)', re.I)


class ScheduleError(Exception):
    """The schedule could not be followed (machinery failure)."""


class _Req(object):
    def __init__(self, name, call):
        self.name = name
        self.call = call          # (method, path, headers, body)
        self.thread = None
        self.open = 0             # open transactions of this thread (nesting)
        self.ntx = 0              # top-level transactions begun so far
        self.parked = False
        self.done = False
        self.result = None
        self.error = None
        self.cur_writes = 0
        self.cur_r = set()        # tables read / written by the open transaction
        self.cur_w = set()
        self.stmts = 0


class Controller(object):
    """One per process (listeners are installed once on the global engine)."""

    _instance = None

    @classmethod
    def get(cls, app):
        if cls._instance is None:
            cls._instance = cls(app)
        return cls._instance

    def __init__(self, app):
        self.app = app
        self.cv = threading.Condition()
        self.reqs = {}
        self.by_thread = {}
        self.active = False
        self.log = []             # tx events in commit order
        self.on_tx_end = None     # callback(req, kind) run by the controller
        self.stmt_hook = None     # callback(req, conn, cursor, statement) -> None
        self.commit_hook = None
        eng = app.engine
        event.listen(eng, 'begin', self._on_begin)
        event.listen(eng, 'commit', self._on_commit)
        event.listen(eng, 'rollback', self._on_rollback)
        event.listen(eng, 'before_cursor_execute', self._on_stmt)

    # -- listeners (run in request threads) ---------------------------------
    def _cur(self):
        if not self.active:
            return None
        return self.by_thread.get(threading.get_ident())

    def _on_begin(self, conn):
        r = self._cur()
        if r is None:
            return
        if r.open > 0:
            r.open += 1           # reader.independent inside an open scope
            return
        with self.cv:
            r.open = 1
            r.ntx += 1
            r.cur_writes = 0
            r.cur_r = set()
            r.cur_w = set()
            r.parked = True
            self.cv.notify_all()
            while r.parked:
                self.cv.wait()

    def _end(self, conn, what):
        r = self._cur()
        if r is None:
            return
        if r.open > 1:
            r.open -= 1
            return
        if r.open == 0:
            return
        r.open = 0
        if not r.cur_writes:
            kind = 'R'            # readers end with a rollback on this stack
        elif what == 'rollback':
            kind = 'WX'           # wrote, then rolled back
        else:
            kind = 'W'
        if kind == 'W':
            fp = (frozenset(r.cur_r), frozenset(r.cur_w))
        else:                     # nothing written that anybody can see
            fp = (frozenset(r.cur_r | r.cur_w), frozenset())
        self.log.append((r.name, r.ntx, kind, fp))
        if self.commit_hook is not None:
            self.commit_hook(r, what, kind)

    def _on_commit(self, conn):
        self._end(conn, 'commit')

    def _on_rollback(self, conn):
        self._end(conn, 'rollback')

    def _on_stmt(self, conn, cursor, statement, parameters, context, executemany):
        r = self._cur()
        if r is None:
            return
        r.stmts += 1
        s = statement.lstrip()[:6].upper()
        if s in ('INSERT', 'UPDATE', 'DELETE'):
            r.cur_writes += 1
            m = _WRITE_TABLE.search(statement)
            if m:
                r.cur_w.add(m.group(1).lower())
        r.cur_r.update(t.lower() for t in _READ_TABLE.findall(statement))
        if self.stmt_hook is not None:
            self.stmt_hook(r, conn, cursor, statement, parameters)

    # -- controller -----------------------------------------------------------
    def _thread_main(self, r):
        self.by_thread[threading.get_ident()] = r
        try:
            if callable(r.call):
                r.result = r.call()
            else:
                r.result = self.app.call(*r.call)
        except BaseException as ex:   # crash injection ends up here
            r.error = ex
        finally:
            with self.cv:
                r.done = True
                r.parked = False
                self.cv.notify_all()

    def _wait_quiet(self, r, timeout=30.0):
        """Wait until request r is parked at a begin or finished."""
        t0 = time.time()
        with self.cv:
            while not (r.parked or r.done):
                if not self.cv.wait(timeout=1.0) and time.time() - t0 > timeout:
                    raise ScheduleError('request %s neither parked nor done' % r.name)

    def start(self, calls):
        """calls: ordered dict name -> (method, path, headers, body).  Starts
        every request and lets each run up to its first transaction."""
        self.reqs = {}
        self.by_thread = {}
        self.log = []
        self.active = True
        for name, call in calls.items():
            r = _Req(name, call)
            self.reqs[name] = r
            r.thread = threading.Thread(target=self._thread_main, args=(r,),
                                        name='pv-' + name, daemon=True)
        for r in self.reqs.values():
            r.thread.start()
            self._wait_quiet(r)      # thread-local prologue, one at a time

    def enabled(self):
        return [n for n, r in self.reqs.items() if not r.done]

    def step(self, name):
        """Let request `name` run its next top-level transaction and whatever
        thread-local code follows, until it parks again or finishes.
        Returns (txno, kind, (tables read, tables written)) of the transaction executed, or None if the
        request finished without a further transaction."""
        r = self.reqs[name]
        if r.done:
            return None
        if not r.parked:
            raise ScheduleError('request %s is not parked' % name)
        before = len(self.log)
        with self.cv:
            r.parked = False
            self.cv.notify_all()
        self._wait_quiet(r)
        mine = [e for e in self.log[before:] if e[0] == name]
        if not mine:
            return None
        return mine[-1][1], mine[-1][2], mine[-1][3]

    def finish(self):
        for r in self.reqs.values():
            while not r.done:
                self.step(r.name)
        for r in self.reqs.values():
            r.thread.join(timeout=10)
        self.active = False
        out = {}
        for n, r in self.reqs.items():
            out[n] = {'result': r.result, 'error': r.error, 'ntx': r.ntx,
                      'stmts': r.stmts}
        return out


def run_schedule(app, calls, schedule, observe=None):
    """Run `calls` under `schedule` (a list of request names; names of finished
    requests are skipped; 'X*' lets request X run to completion at that point; when the list is exhausted the request scheduled
    last runs to completion, then the remaining ones in name order, so that a
    prefix adds exactly one preemption).  observe(name, txno, kind) is called by
    the controller thread after every transaction (no transaction is open).
    Returns (results, executed) where executed is the list of
    (name, txno, kind) actually performed."""
    c = Controller.get(app)
    c.start(calls)
    executed = []
    try:
        for name in schedule:
            if name.endswith('*'):
                # this request runs to completion here
                name = name[:-1]
                while not c.reqs[name].done:
                    e = c.step(name)
                    if e:
                        executed.append((name,) + e)
                        if observe:
                            observe(name, e[0], e[1])
                continue
            if c.reqs[name].done:
                continue
            e = c.step(name)
            if e:
                executed.append((name,) + e)
                if observe:
                    observe(name, e[0], e[1])
        # continuation without further preemption: the request scheduled last
        # runs to completion first, then the others in name order
        order = list(calls)
        if schedule and schedule[-1].rstrip('*') in order and schedule[-1].endswith('*'):
            pass
        elif schedule and schedule[-1] in order:
            order.remove(schedule[-1])
            order.insert(0, schedule[-1])
        for name in order:
            while not c.reqs[name].done:
                e = c.step(name)
                if e:
                    executed.append((name,) + e)
                    if observe:
                        observe(name, e[0], e[1])
    finally:
        res = c.finish()
    return res, executed
