SPECIFICATION RSpec
CONSTANT FIXES <- NoFixes
CONSTANT ENV <- NoEnv
INVARIANT Inv_C05
INVARIANT Inv_C06
INVARIANT Inv_C07
INVARIANT Inv_C12
INVARIANT Inv_Struct
CHECK_DEADLOCK FALSE
