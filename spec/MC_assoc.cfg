CONSTANTS
  P = {"p1", "p2"}
  K = {"VCPU"}
  C = {"c1"}
  T = {"CUSTOM_T1", "HW_CPU_X86_AVX", "NOSUCH"}
  A = {"agg1", "agg2"}
  INVS <- InvsOne
  AMTS = {1}
  GROUPS <- G_assoc
  MAXGEN = 4
  MAXDEPTH = 5
INIT InitTwoProviders
NEXT Next
VIEW View
CONSTRAINT Bounded
INVARIANT Inv_TypeOK
INVARIANT Inv_C08
PROPERTY Step_C04
PROPERTY Step_C08
PROPERTY Step_C10
CHECK_DEADLOCK FALSE
