SPECIFICATION Spec
POSTCONDITION AllConsumed
CHECK_DEADLOCK FALSE
