------------------------------- MODULE Surface -------------------------------
(***************************************************************************)
(* The versioned surface and the policy table of the Placement API as      *)
(* data, transcribed from rest_api_version_history.rst, the api-ref and    *)
(* the policy documentation (not from the decorators), with the structural *)
(* laws TLC checks on them (C14, C16).                                     *)
(***************************************************************************)
EXTENDS Integers, Sequences, FiniteSets, TLC

MaxVersion == 39
Versions == 0..MaxVersion

\* (route, method) -> first version, what older versions answer, policy rule
R(route, method, lo, below, rule) ==
  [route |-> route, method |-> method, lo |-> lo, below |-> below, rule |-> rule]

Operations == {
  R("/", "GET", 0, 0, "none"),
  R("/resource_classes", "GET", 2, 404, "placement:resource_classes:list"),
  R("/resource_classes", "POST", 2, 404, "placement:resource_classes:create"),
  R("/resource_classes/{name}", "GET", 2, 404, "placement:resource_classes:show"),
  R("/resource_classes/{name}", "PUT", 2, 404, "placement:resource_classes:update"),
  R("/resource_classes/{name}", "DELETE", 2, 404, "placement:resource_classes:delete"),
  R("/resource_providers", "GET", 0, 0, "placement:resource_providers:list"),
  R("/resource_providers", "POST", 0, 0, "placement:resource_providers:create"),
  R("/resource_providers/{uuid}", "GET", 0, 0, "placement:resource_providers:show"),
  R("/resource_providers/{uuid}", "PUT", 0, 0, "placement:resource_providers:update"),
  R("/resource_providers/{uuid}", "DELETE", 0, 0, "placement:resource_providers:delete"),
  R("/resource_providers/{uuid}/inventories", "GET", 0, 0, "placement:resource_providers:inventories:list"),
  R("/resource_providers/{uuid}/inventories", "POST", 0, 0, "placement:resource_providers:inventories:create"),
  R("/resource_providers/{uuid}/inventories", "PUT", 0, 0, "placement:resource_providers:inventories:update"),
  R("/resource_providers/{uuid}/inventories", "DELETE", 5, 405, "placement:resource_providers:inventories:delete"),
  R("/resource_providers/{uuid}/inventories/{resource_class}", "GET", 0, 0, "placement:resource_providers:inventories:show"),
  R("/resource_providers/{uuid}/inventories/{resource_class}", "PUT", 0, 0, "placement:resource_providers:inventories:update"),
  R("/resource_providers/{uuid}/inventories/{resource_class}", "DELETE", 0, 0, "placement:resource_providers:inventories:delete"),
  R("/resource_providers/{uuid}/usages", "GET", 0, 0, "placement:resource_providers:usages"),
  R("/resource_providers/{uuid}/aggregates", "GET", 1, 404, "placement:resource_providers:aggregates:list"),
  R("/resource_providers/{uuid}/aggregates", "PUT", 1, 404, "placement:resource_providers:aggregates:update"),
  R("/resource_providers/{uuid}/allocations", "GET", 0, 0, "placement:resource_providers:allocations:list"),
  R("/resource_providers/{uuid}/traits", "GET", 6, 404, "placement:resource_providers:traits:list"),
  R("/resource_providers/{uuid}/traits", "PUT", 6, 404, "placement:resource_providers:traits:update"),
  R("/resource_providers/{uuid}/traits", "DELETE", 6, 404, "placement:resource_providers:traits:delete"),
  R("/allocations", "POST", 13, 404, "placement:allocations:manage"),
  R("/allocations/{consumer_uuid}", "GET", 0, 0, "placement:allocations:list"),
  R("/allocations/{consumer_uuid}", "PUT", 0, 0, "placement:allocations:update"),
  R("/allocations/{consumer_uuid}", "DELETE", 0, 0, "placement:allocations:delete"),
  R("/allocation_candidates", "GET", 10, 404, "placement:allocation_candidates:list"),
  R("/traits", "GET", 6, 404, "placement:traits:list"),
  R("/traits/{name}", "GET", 6, 404, "placement:traits:show"),
  R("/traits/{name}", "PUT", 6, 404, "placement:traits:update"),
  R("/traits/{name}", "DELETE", 6, 404, "placement:traits:delete"),
  R("/usages", "GET", 9, 404, "placement:usages"),
  R("/reshaper", "POST", 30, 404, "placement:reshaper:reshape") }

RoutePaths == {o.route : o \in Operations}
Methods == {"GET", "PUT", "POST", "DELETE", "PATCH", "HEAD", "OPTIONS"}
MethodsOf(route) == {o.method : o \in {x \in Operations : x.route = route}}
OpOf(route, method) == CHOOSE o \in Operations : o.route = route /\ o.method = method

\* What the routing / version layers answer for a request whose version header
\* was accepted as version v: "handled" means the handler itself decides.
Disposition(route, method, v) ==
  IF route \notin RoutePaths THEN "404"
  ELSE IF method \notin MethodsOf(route) THEN "405"
  ELSE LET o == OpOf(route, method) IN
       IF v < o.lo THEN (IF o.below = 405 THEN "405" ELSE "404") ELSE "handled"

\* 1.15 adds last-modified and cache-control: no-cache to GET responses throughout the API
CacheHeadersFrom == 15

\* versioned features: id, introducing version, last version (39 = still there)
F(id, lo, hi) == [id |-> id, lo |-> lo, hi |-> hi]
Features == {
  F("rp_list_member_of", 3, 39), F("rp_list_resources", 4, 39),
  F("put_class_without_body", 7, 39), F("put_class_rename", 2, 6),
  F("alloc_put_project_user_required", 8, 39),
  F("rp_link_allocations", 11, 39),
  F("alloc_put_dict_form", 12, 39), F("alloc_put_list_form", 0, 11),
  F("alloc_get_project_user", 12, 39),
  F("rp_parent_root_keys", 14, 39), F("rp_post_parent", 14, 39), F("rp_list_in_tree", 14, 39),
  F("cache_headers_get", 15, 39),
  F("ac_limit", 16, 39), F("ac_required", 17, 39), F("ac_summary_traits", 17, 39),
  F("rp_list_required", 18, 39),
  F("agg_put_object_form", 19, 39), F("agg_put_list_form", 1, 18), F("agg_get_generation", 19, 39),
  F("rp_post_returns_body", 20, 39),
  F("ac_member_of", 21, 39), F("ac_forbidden_trait", 22, 39), F("rp_list_forbidden_trait", 22, 39),
  F("error_code", 23, 39),
  F("error_code_concurrent_update", 23, 39), F("error_code_duplicate_name", 23, 39),
  F("error_code_duplicate_name_on_update", 23, 39), F("error_code_inventory_inuse", 23, 39),
  F("error_code_cannot_delete_parent", 23, 39), F("error_code_provider_inuse", 23, 39),
  F("alloc_post_consumer_generation_required", 28, 39), F("alloc_post_consumer_type_required", 38, 39),
  F("alloc_post_mappings", 34, 39), F("reshape_consumer_type_required", 38, 39), F("reshape_mappings", 34, 39),
  F("usages_grouped_by_type", 38, 39), F("cache_headers_write_with_body", 15, 39),
  F("cache_headers_absent_on_write_with_body", 0, 14), F("ac_group_policy", 25, 39),
  F("alloc_put_project_user_accepted", 8, 39), F("alloc_put_consumer_generation_accepted", 28, 39),
  F("alloc_put_consumer_type_accepted", 38, 39), F("alloc_post_consumer_generation_accepted", 28, 39),
  F("alloc_post_consumer_type_accepted", 38, 39), F("rp_put_parent_accepted", 14, 39),
  F("ac_resourceless_group", 36, 39),
  \* "refused" features: the probe is answered 400 wherever the route exists (1.10-)
  F("ac_orphan_required_refused", 10, 39), F("ac_orphan_forbidden_refused", 10, 39),
  F("ac_orphan_member_of_refused", 10, 39), F("ac_orphan_forbidden_agg_refused", 10, 39),
  F("ac_orphan_in_tree_refused", 10, 39),
  F("rp_list_repeated_member_of", 24, 39),
  F("ac_granular", 25, 39),
  F("inv_reserved_equals_total", 26, 39),
  F("ac_summary_all_classes", 27, 39),
  F("alloc_put_consumer_generation_required", 28, 39), F("alloc_put_empty", 28, 39),
  F("alloc_get_consumer_generation", 28, 39), F("rp_allocs_consumer_generation", 28, 39),
  F("ac_summary_parent_root", 29, 39),
  F("ac_in_tree", 31, 39), F("ac_forbidden_agg", 32, 39), F("rp_list_forbidden_agg", 32, 39),
  F("ac_string_suffix", 33, 39), F("ac_mappings", 34, 39), F("alloc_put_mappings", 34, 39),
  F("ac_root_required", 35, 39), F("ac_same_subtree", 36, 39),
  F("rp_reparent", 37, 39), F("rp_reparent_same_tree", 37, 39), F("rp_reparent_other_tree", 37, 39),
  F("alloc_put_consumer_type_required", 38, 39), F("alloc_get_consumer_type", 38, 39),
  F("usages_consumer_type", 38, 39),
  F("ac_required_in", 39, 39), F("rp_list_required_in", 39, 39) }

FeatureById(id) == CHOOSE f \in Features : f.id = id
Present(id, v) == LET f == FeatureById(id) IN v >= f.lo /\ v <= f.hi

\* --- policy ---------------------------------------------------------------
\* (the *_svchdr callers also send the roles of a service token, X-Service-Roles: these are
\* not roles of the caller and no documented rule refers to them)
Callers == {"none", "noroles", "reader_own", "reader_other", "member", "admin", "service",
            "noroles_svchdr", "reader_svchdr"}
RolesOf(c) == CASE c = "admin" -> {"admin", "member", "reader"}
                [] c = "member" -> {"member", "reader"}
                [] c \in {"reader_own", "reader_other", "reader_svchdr"} -> {"reader"}
                [] c = "service" -> {"service"}
                [] OTHER -> {}
\* every caller but reader_other asks about its own project
OwnProject(c) == c # "reader_other"
\* default policy: admin or service; reshaper service only; GET /usages also a reader of the project queried
DefaultAllows(rule, c) ==
  CASE rule = "none" -> TRUE
    [] c = "none" -> FALSE
    [] rule = "placement:reshaper:reshape" -> "service" \in RolesOf(c)
    [] rule = "placement:usages" -> "admin" \in RolesOf(c) \/ "service" \in RolesOf(c) \/ ("reader" \in RolesOf(c) /\ OwnProject(c))
    [] OTHER -> "admin" \in RolesOf(c) \/ "service" \in RolesOf(c)
Rules == {o.rule : o \in Operations} \ {"none"}
\* with one rule overridden to "everyone" ("@") or "nobody" ("!")
Allows(rule, c, ovRule, ovKind) ==
  IF rule = "none" THEN TRUE
  ELSE IF c = "none" THEN FALSE
  ELSE IF rule = ovRule THEN ovKind = "@"
  ELSE DefaultAllows(rule, c)

\* --- structural laws (checked by TLC in MC_Surface) -------------------------
\* one operation per (route, method); windows are upward closed by construction
UniqueOps == \A a, b \in Operations : (a.route = b.route /\ a.method = b.method) => a = b
WindowsOK == \A o \in Operations : o.lo \in Versions /\ (o.lo = 0 <=> o.below = 0) /\ o.below \in {0, 404, 405}
FeaturesOK == /\ \A f \in Features : f.lo \in Versions /\ f.hi \in Versions /\ f.lo <= f.hi
              /\ \A a, b \in Features : a.id = b.id => a = b
              \* a feature is upward closed from its introduction, or an explicitly closed legacy window
              /\ \A f \in Features : f.hi = MaxVersion \/ f.id \in {"put_class_rename", "alloc_put_list_form", "agg_put_list_form",
                                                                  "cache_headers_absent_on_write_with_body"}
EveryOpHasRule == \A o \in Operations : o.route = "/" <=> o.rule = "none"
\* default policy is monotone in roles: who may do more never may do less
MonotonePolicy ==
  \A r \in Rules : \A c, d \in Callers \ {"none", "reader_own", "reader_other"} :
     RolesOf(c) \subseteq RolesOf(d) => (DefaultAllows(r, c) => DefaultAllows(r, d))
\* nobody without the admin or service role can use anything but GET /usages on the own project
OnlyAdminOrService ==
  \A r \in Rules : \A c \in Callers :
     DefaultAllows(r, c) => ("admin" \in RolesOf(c) \/ "service" \in RolesOf(c)
                             \/ (r = "placement:usages" /\ "reader" \in RolesOf(c) /\ OwnProject(c)))
Laws == UniqueOps /\ WindowsOK /\ FeaturesOK /\ EveryOpHasRule /\ MonotonePolicy /\ OnlyAdminOrService
=============================================================================
