"""The repository's own functional test corpus (gabbi YAML files, not part of
the pinned suite) as a source of traces.

The gabbi driver runs every file against the real WSGI application (its own
fixtures, in-memory SQLite); a recording layer around the application logs
every exchange with the projected database before and after it.  Exchanges
inside the alphabet of API.tla (pv/unrender.py) are judged by TLC against
`Apply` and every monitor (TraceAPI.tla); the others are judged by the generic
rules (op "opaque": a refused request and a read change nothing, the stored
state keeps the structural invariants).  The names used by the corpus are
classified by TLC with NameRules.tla in a pre-pass and handed to the
specification as its vocabulary (PV_VOCAB, see Data.tla).

Gabbi's own assertions are not the oracle and their failures are ignored."""
import json
import os
import shutil
import sys
import tempfile
import unittest

from pv import names, project, reqs, tlc, unrender

import pv as _pv
GABBITS = _pv.REPO + '/placement/tests/functional/gabbits'
ENV = {'iproj': names.DEFAULT_IPROJ, 'iuser': names.DEFAULT_IUSER}


class Recording(object):
    """WSGI layer around the application under test."""

    def __init__(self, app_factory, sink):
        self.factory = app_factory
        self.app = None
        self.sink = sink

    def __call__(self, environ, start_response):
        import webob
        from placement import db_api
        if self.app is None:
            self.app = self.factory()
        engine = db_api.get_placement_engine()
        req = webob.Request(environ)
        body = req.body           # webob re-seats wsgi.input
        hdrs = {k: v for k, v in req.headers.items()}      # before the middlewares add theirs
        try:
            pre, _ = project.dump(engine)
        except Exception as ex:
            pre = {'unmodelled': repr(ex)}
        resp = req.get_response(self.app)
        rb = resp.body
        try:
            post, extra = project.dump(engine)
        except Exception as ex:
            post, extra = {'unmodelled': repr(ex)}, {}
        self.sink.append({'method': req.method, 'path': req.path_qs, 'headers': hdrs, 'body': body,
                          'status': resp.status_int, 'rh': {k.lower(): v for k, v in resp.headerlist}, 'rb': rb,
                          'pre': pre, 'post': post, 'extra': extra})
        return resp(environ, start_response)


def _shim():
    """deploy() needs [oslo_policy]enforce_scope, which the installed
    oslo.policy no longer registers (harness-side, see DESIGN 1.5)."""
    from oslo_config import cfg
    import placement.conf as pconf
    if getattr(pconf, '_pv_shimmed', False):
        return
    orig = pconf.register_opts

    def register_opts(conf):
        orig(conf)
        for opt in (cfg.BoolOpt('enforce_scope', default=False),):
            try:
                conf.register_opt(opt, group='oslo_policy')
            except cfg.DuplicateOptError:
                pass
    pconf.register_opts = register_opts
    pconf._pv_shimmed = True


def record(files):
    """Run the gabbi files; returns {file: [exchange, ...]} in execution order."""
    _shim()
    from gabbi import driver
    from placement import deploy
    from placement.tests.functional.fixtures import gabbits as fixtures
    import wsgi_intercept
    wsgi_intercept.STRICT_RESPONSE_HEADERS = True
    out = {}
    for fn in files:
        sink = []

        def factory():
            return deploy.loadapp(fixtures.CONF)
        tmp = tempfile.mkdtemp(prefix='pv-gabbi-')
        try:
            shutil.copy(os.path.join(GABBITS, fn), tmp)
            loader = unittest.TestLoader()
            suite = driver.build_tests(tmp, loader, host=None, test_loader_name='pv.gabbi',
                                       intercept=lambda: Recording(factory, sink),
                                       fixture_module=fixtures)
            res = unittest.TestResult()
            devnull = open(os.devnull, 'w')
            old = sys.stdout, sys.stderr
            sys.stdout = sys.stderr = devnull
            try:
                suite.run(res)
            finally:
                sys.stdout, sys.stderr = old
                devnull.close()
        finally:
            shutil.rmtree(tmp, ignore_errors=True)
        out[fn] = sink
    return out


# ---------------------------------------------------------------------------

def _collect_names(exchanges):
    """Every string that an exchange uses, or the database holds, where a
    class / trait name is expected."""
    cls, trs = set(), set()
    for x in exchanges:
        r = x.get('areq')
        if r:
            for k in ('name', 'newname', 'rc'):
                if r.get(k):
                    (trs if r['op'].startswith('trait') else cls).add(r[k])
            for t in r.get('traits', []) or []:
                trs.add(t)
            for t in r.get('names', []) or []:
                trs.add(t)
            for inv in r.get('invs', []) or []:
                if 'rc' in inv:
                    cls.add(inv['rc'])
                for y in inv.get('invs', []) if isinstance(inv.get('invs'), list) else []:
                    cls.add(y['rc'])
            ents = [r] if r['op'] == 'alloc_put' else r.get('entries', [])
            for e in ents:
                for a in e.get('allocs', []):
                    for y in a['res']:
                        cls.add(y['rc'])
        for st in (x['pre'], x['post']):
            if 'classes' in st:
                cls.update(st['classes'])
                trs.update(st['ctraits'])
                for p, d in st['inv'].items():
                    cls.update(d)
                for p, d in st['traits'].items():
                    trs.update(d)
    return cls, trs


def classify(strings):
    """TLC pre-pass: which of the strings are legal custom names (NameRules.tla)."""
    strings = sorted(s for s in strings if s.isascii())
    if not strings:
        return set()
    d = tempfile.mkdtemp(prefix='pv-classify-')
    try:
        path = os.path.join(d, 'n.ndjson')
        with open(path, 'w') as f:
            for i, s in enumerate(strings):
                f.write(json.dumps({'id': i + 1, 'cp': [ord(c) for c in s]}) + '\n')
        rc, out, wall = tlc.run('ClassifyNames', 'TraceNames.cfg', env={'TRACE_FILE': path}, workers=1,
                                timeout=600, metadir=os.path.join(d, 'm'))
        legal = set()
        seen = 0
        for v in tlc.printed_values(out, 'CN'):
            seen += 1
            if v[2]:
                legal.add(strings[v[1] - 1])
        if seen != len(strings) or 'Error:' in out:
            raise tlc.TLCError('ClassifyNames judged %d of %d names\n%s' % (seen, len(strings), out[-2000:]))
        return legal
    finally:
        shutil.rmtree(d, ignore_errors=True)


def vocabulary(exchanges):
    import os_resource_classes as orc
    import os_traits
    cls, trs = _collect_names(exchanges)
    std_c = list(orc.STANDARDS)
    std_t = list(os_traits.get_traits())
    legal = classify((cls | trs) - set(std_c) - set(std_t))
    universe = set(std_t) | (trs & legal)
    prefixes = {}
    for x in exchanges:
        r = x.get('areq')
        if r and r['op'] == 'traits_list' and r['fkind'] == 'startswith':
            prefixes[r['prefix']] = sorted(t for t in universe if t.startswith(r['prefix']))
    return {'std_classes': std_c, 'std_traits': std_t,
            'custom_classes': sorted(legal), 'custom_traits': sorted(legal),
            'prefixes': prefixes}


def policy_of(fn):
    """The policy fixture of a gabbi file (by the corpus' naming convention)."""
    if fn.endswith('-secure-rbac.yaml'):
        return 'secure'
    if fn.endswith('-policy.yaml'):
        return 'open'
    return 'default'


def to_lines(per_file):
    """Trace lines (TraceAPI format) + bookkeeping."""
    lines, meta = [], {}
    nid = 0
    for fn in sorted(per_file):
        prev_post = None
        for k, x in enumerate(per_file[fn]):
            if 'unmodelled' in x['pre'] or 'unmodelled' in x['post']:
                prev_post = None
                continue
            areq = unrender.abstract(x['method'], x['path'], x['headers'], x['body'], ENV, policy_of(fn))
            x['areq'] = areq
            if areq is None:
                req = {'op': 'opaque', 'v': 0, 'method': x['method']}
                resp = {'status': x['status'], 'code': '', 'body': reqs.NOBODY}
            else:
                req = areq
                try:
                    resp = reqs.parse(areq, x['status'], x['rh'], x['rb'])
                except Exception:
                    resp = {'status': x['status'], 'code': '', 'body': {'unparsable': True}}
            nid += 1
            reset = prev_post is None or prev_post != x['pre']
            lines.append({'id': nid, 'reset': reset, 'pre': x['pre'], 'req': req, 'resp': resp, 'post': x['post']})
            meta[nid] = {'file': fn, 'index': k, 'http': [x['method'], x['path'], x['status'],
                                                          x['rb'][:300].decode('utf-8', 'replace')],
                         'body': (x['body'] or b'')[:600].decode('utf-8', 'replace'),
                         'extra': x['extra'], 'modelled': areq is not None}
            prev_post = x['post']
    return lines, meta


def validate(lines, vocab, timeout=3600):
    from pv import trace
    d = tempfile.mkdtemp(prefix='pv-gvocab-')
    try:
        vp = os.path.join(d, 'vocab.json')
        with open(vp, 'w') as f:
            json.dump(vocab, f)
        os.environ['PV_VOCAB'] = vp
        try:
            return trace.validate(lines, timeout=timeout)
        finally:
            os.environ.pop('PV_VOCAB', None)
    finally:
        shutil.rmtree(d, ignore_errors=True)


def cand_lines(per_file):
    """GET /allocation_candidates and GET /resource_providers exchanges as
    lines of TraceCand.tla."""
    from pv import cand
    lines, meta = [], {}
    for fn in sorted(per_file):
        for k, x in enumerate(per_file[fn]):
            if x['method'] != 'GET' or 'unmodelled' in x['pre']:
                continue
            path = x['path'].split('?')[0]
            if path == '/allocation_candidates':
                q = unrender.abstract_ac(x['path'], x['headers'])
                kind = 'ac'
            elif path == '/resource_providers':
                q = unrender.abstract_list(x['path'], x['headers'])
                kind = 'list'
            else:
                continue
            if q is None:
                continue
            x['cq'] = q
            try:
                if kind == 'ac':
                    body = cand.parse_ac(q, x['status'], x['rb'])
                    body.pop('raw', None)
                else:
                    body = {}
                    if x['status'] == 200:
                        body = {'uuids': {names.to_name(r['uuid']): True
                                          for r in json.loads(x['rb'])['resource_providers']}}
            except Exception:
                continue
            lid = len(lines) + 1
            lines.append({'id': lid, 'kind': kind, 'pre': x['pre'], 'q': q, 'status': x['status'], 'body': body})
            meta[lid] = {'file': fn, 'index': k, 'path': x['path'], 'raw': x['rb'][:300].decode('utf-8', 'replace')}
    return lines, meta


def _names_of_queries(lines):
    cls, trs = set(), set()
    for ln in lines:
        q = ln['q']
        groups = q.get('groups') or [q]
        for g in groups:
            cls.update(g.get('res', g.get('resources', {})))
            for r in g['required']:
                trs.update(r)
            trs.update(g['forbidden'])
        trs.update(q.get('root_required', {}))
        trs.update(q.get('root_forbidden', {}))
    return cls, trs


def cand_worker(job):
    """Record a share of the corpus and judge its candidate / listing reads
    with TraceCand.tla; result in the format of cand.worker."""
    from pv import cand
    import os_resource_classes as orc
    import os_traits
    per_file = record(job['files'])
    lines, meta = cand_lines(per_file)
    exchanges = [x for fn in per_file for x in per_file[fn]]
    for x in exchanges:
        x['areq'] = None
    vocab = vocabulary(exchanges)
    qc, qt = _names_of_queries(lines)
    legal = classify((qc | qt) - set(vocab['std_classes']) - set(vocab['std_traits']))
    vocab['custom_classes'] = sorted(set(vocab['custom_classes']) | legal)
    vocab['custom_traits'] = sorted(set(vocab['custom_traits']) | legal)
    verdicts = {}
    if lines:
        d = tempfile.mkdtemp(prefix='pv-gvocab-')
        try:
            vp = os.path.join(d, 'vocab.json')
            with open(vp, 'w') as f:
                json.dump(vocab, f)
            os.environ['PV_VOCAB'] = vp
            try:
                verdicts, wall = cand.validate(lines, timeout=job.get('timeout', 1500))
            finally:
                os.environ.pop('PV_VOCAB', None)
        finally:
            shutil.rmtree(d, ignore_errors=True)
    bad, hist = [], {}
    for ln in lines:
        v = [t for t in verdicts[ln['id']] if not t.startswith('INFO')]
        m = meta[ln['id']]
        hk = '%s:%s' % (ln['kind'], ln['status'])
        hist[hk] = hist.get(hk, 0) + 1
        if v:
            bad.append({'monitors': v, 'kind': ln['kind'], 'q': ln['q'], 'pre': ln['pre'], 'status': ln['status'],
                        'body': ln['body'], 'path': m['path'], 'tag': 'nested-sharing-provider' if cand.has_nested_sharing(ln['pre']) else '',
                        'seed': 'gabbi:%s#%d' % (m['file'], m['index']), 'raw': m['raw']})
    return {'n': len(lines), 'bad': bad, 'hist': hist, 'files': len(per_file)}


def worker(job):
    """Record and validate a share of the corpus; result in the format of
    seqengine._worker so that the same attribution applies."""
    import os_resource_classes as orc
    import os_traits
    # the universe reqs.parse filters listings with
    names.STD_TRAITS[:] = sorted(set(names.STD_TRAITS) | set(os_traits.get_traits()))
    names.STD_CLASSES[:] = list(orc.STANDARDS)
    per_file = record(job['files'])
    lines, meta = to_lines(per_file)
    exchanges = [x for fn in per_file for x in per_file[fn]]
    vocab = vocabulary(exchanges)
    verdicts, st = validate(lines, vocab) if lines else ({}, {})
    out = {'n': len(lines), 'stats': st, 'bad': [], 'ops': {}, 'keys': {}, 'histories': len(per_file),
           'modelled': sum(1 for m in meta.values() if m['modelled']), 'sample': [],
           'per_file': {fn: len(v) for fn, v in per_file.items()}}
    by_id = {ln['id']: ln for ln in lines}
    for ln in lines:
        v = verdicts[ln['id']]
        m = meta[ln['id']]
        k = '%s:%s' % (ln['req']['op'], ln['resp']['status'])
        out['ops'][k] = out['ops'].get(k, 0) + 1
        extra_bad = []
        e = m['extra']
        if e.get('dangling'):
            extra_bad.append('dangling')
        if e and (not e['std_classes_ok'] or not e['std_traits_ok'] or e['dup_class_ids']):
            extra_bad.append('std')
        if v['diff'] or v['mon'] or extra_bad:
            out['bad'].append({'line': ln, 'verdict': v, 'extra_bad': extra_bad, 'http': m['http'],
                               'history': 'gabbi:' + m['file'], 'seed': m['index'], 'prefix': [],
                               'request_body': m['body']})
    return out
