----------------------------- MODULE TraceSerial -----------------------------
(***************************************************************************)
(* Validation of concurrent executions recorded from the real application  *)
(* under the deterministic transaction scheduler (pv/sched.py).            *)
(*                                                                         *)
(* One NDJSON line per schedule:                                           *)
(*   [id, db0, reqs : Seq(request), resps : Seq(response),                 *)
(*    commits : Seq([who, post]), final]                                   *)
(* `commits` lists, in commit order, every committed transaction that      *)
(* wrote something, with the complete projected database after it.         *)
(*                                                                         *)
(* The oracle is API!Apply alone (no model of the transaction structure):  *)
(*  C07  some order of the requests answered with success reproduces,      *)
(*       request by request, success and finally the observed database;    *)
(*  C05  a generation-carrying provider write changed the provider only in *)
(*       a commit that found the carried generation; the others were       *)
(*       rejected with 409 placement.concurrent_update;                    *)
(*  C06  likewise for consumer generations of allocation writes;           *)
(*  and every error status is one the sequential meaning gives in some     *)
(*  serial prefix (never a 5xx).                                           *)
(***************************************************************************)
EXTENDS Serial, Json, IOUtils

VARIABLES i

Log == ndJsonDeserialize(IOEnv.TRACE_FILE)

NormState(j) ==
  [rp |-> j.rp, inv |-> j.inv, alloc |-> j.alloc, cons |-> j.cons,
   traits |-> [p \in DOMAIN j.traits |-> DOMAIN j.traits[p]],
   aggs |-> [p \in DOMAIN j.aggs |-> DOMAIN j.aggs[p]],
   classes |-> j.classes, ctraits |-> DOMAIN j.ctraits]

\* states before / after the n-th commit
Before(ln, n) == IF n = 1 THEN NormState(ln.db0) ELSE NormState(ln.commits[n - 1].post)
After(ln, n)  == NormState(ln.commits[n].post)

Succeeded(ln) == {k \in DOMAIN ln.reqs : ln.resps[k].status < 300}

\* A request answered with success that committed no change at all (the no-op
\* PUT traits of API!RpTraitsPut, an empty write for an unknown consumer) is a
\* read as far as the database is concerned; the serial order is demanded of
\* the successful requests that changed something.
Effective(ln) ==
  {k \in Succeeded(ln) : \E n \in DOMAIN ln.commits :
       ln.commits[n].who = k
       /\ (IF n = 1 THEN NormState(ln.db0) ELSE NormState(ln.commits[n - 1].post)) # NormState(ln.commits[n].post)}

\* The serial execution is folded with Apply; the generation *values* each
\* request meets are those of the real execution at its (last effective)
\* commit, so that the yardstick does not depend on how far the implementation
\* moves a generation per change, while a guard that let a stale generation
\* through still fails in the fold.
LastEffectiveCommit(ln, k) ==
  LET ns == {n \in DOMAIN ln.commits : ln.commits[n].who = k /\ Before(ln, n) # After(ln, n)}
  IN CHOOSE n \in ns : \A m \in ns : m <= n
RECURSIVE FoldObserved(_, _, _)
FoldObserved(ln, st, ord) ==
  IF ord = <<>> THEN [ok |-> TRUE, s |-> st]
  ELSE LET k == Head(ord)
           st1 == AdoptGens(st, Before(ln, LastEffectiveCommit(ln, k)))
           a == Apply(st1, ln.reqs[k]) IN
       IF a.resp.status # ln.resps[k].status THEN [ok |-> FALSE, s |-> st]
       ELSE FoldObserved(ln, a.s, Tail(ord))

Serializable(ln) ==
  \E ord \in Orders(Effective(ln)) :
     LET f == FoldObserved(ln, NormState(ln.db0), ord)
     IN f.ok /\ SameUpToRetriedGens(NormState(ln.db0), f.s, NormState(ln.final))

\* states reachable by applying some of the successful requests in some order
RECURSIVE PrefixStates(_, _, _)
PrefixStates(st, reqs, S) ==
  {st} \cup UNION {LET a == Apply(st, reqs[k]) IN
                   IF a.resp.status < 300 THEN PrefixStates(a.s, reqs, S \ {k}) ELSE {}
                   : k \in S}

\* an error answer must be one the sequential meaning gives somewhere along a
\* serial execution of the others, or the 409 placement.concurrent_update with
\* which a request loses a race (also one against a request that fails later)
ErrorJustified(ln, k) ==
  LET r == ln.reqs[k]
      others == Succeeded(ln) \ {k}
      sts == PrefixStates(NormState(ln.db0), ln.reqs, others)
  IN \/ \E st \in sts : LET a == Apply(st, r) IN
                          a.resp.status = ln.resps[k].status /\ a.resp.code = ln.resps[k].code
     \/ (ln.resps[k].status = 409 /\ ln.resps[k].code = (IF r.v >= 23 THEN CU ELSE ""))

\* --- generation guards, evaluated on the commit sequence -------------------
ProvGenCarriers == {"inv_put", "inv_put_all", "rp_traits_put", "agg_put", "reshape"}
\* the (provider, carried generation) pairs of a request
Carried(r) ==
  CASE r.op \in {"inv_put", "inv_put_all", "rp_traits_put"} -> {<<r.u, r.gen>>}
    [] r.op = "agg_put" -> IF r.v >= 19 THEN {<<r.u, r.gen>>} ELSE {}
    [] r.op = "reshape" -> {<<r.invs[n].u, r.invs[n].gen>> : n \in DOMAIN r.invs}
    [] OTHER -> {}
ProviderData(s, u) == IF u \in Providers(s) THEN <<s.inv[u], s.traits[u], s.aggs[u]>> ELSE <<>>


C05_Commits(ln) ==
  \A n \in DOMAIN ln.commits :
     LET k == ln.commits[n].who
         r == ln.reqs[k] IN
     \A ug \in Carried(r) :
        (\/ ProviderData(Before(ln, n), ug[1]) # ProviderData(After(ln, n), ug[1])
         \* a reshape carries a generation for every provider it names and is one change: whatever
         \* it commits - to any provider's data or to allocations - is committed against all of them
         \/ /\ r.op = "reshape"
            /\ \/ Before(ln, n).alloc # After(ln, n).alloc
               \/ \E u \in Providers(Before(ln, n)) \cup Providers(After(ln, n)) :
                     ProviderData(Before(ln, n), u) # ProviderData(After(ln, n), u))
           => (ug[1] \in Providers(Before(ln, n)) /\ Before(ln, n).rp[ug[1]].gen = ug[2])

\* requests that derive the generation themselves never commit over a change
\* made after they read it: the provider generation moves by exactly their own
\* bumps within their commit (no lost update): checked through serializability.

ConsCarried(r) ==
  CASE r.op = "alloc_put" -> IF r.v >= 28 THEN {<<r.c, r.cgen>>} ELSE {}
    [] r.op \in {"alloc_post", "reshape"} ->
         IF r.v >= 28 THEN {<<r.entries[n].c, r.entries[n].cgen>> : n \in DOMAIN r.entries} ELSE {}
    [] OTHER -> {}
ConsAllocs(s, c) == IF c \in DOMAIN s.alloc THEN s.alloc[c] ELSE <<>>

C06_Commits(ln) ==
  \A n \in DOMAIN ln.commits :
     LET k == ln.commits[n].who
         r == ln.reqs[k] IN
     \A cg \in ConsCarried(r) :
        (ConsAllocs(Before(ln, n), cg[1]) # ConsAllocs(After(ln, n), cg[1])) =>
           IF cg[2] = -1
           THEN \/ cg[1] \notin DOMAIN Before(ln, n).cons
                \* the implementation records the new consumer in an earlier
                \* transaction of the same request (generation 0, no allocations)
                \/ /\ Before(ln, n).cons[cg[1]].gen = 0
                   /\ ConsAllocs(Before(ln, n), cg[1]) = <<>>
                   /\ \E m \in 1..(n - 1) : /\ ln.commits[m].who = k
                                            /\ cg[1] \notin DOMAIN Before(ln, m).cons
                                            /\ cg[1] \in DOMAIN After(ln, m).cons
           ELSE cg[1] \in DOMAIN Before(ln, n).cons /\ Before(ln, n).cons[cg[1]].gen = cg[2]

\* among requests carrying the same generation for one provider / consumer at most one succeeds in changing it
C05_AtMostOne(ln) ==
  \A a, b \in Succeeded(ln) : a # b =>
     \A x \in Carried(ln.reqs[a]) : \A y \in Carried(ln.reqs[b]) :
        (x = y) =>
           \/ ProviderData(NormState(ln.db0), x[1]) = ProviderData(NormState(ln.final), x[1])
           \/ ~(\E n \in DOMAIN ln.commits : ln.commits[n].who = a
                   /\ ProviderData(Before(ln, n), x[1]) # ProviderData(After(ln, n), x[1]))
           \/ ~(\E n \in DOMAIN ln.commits : ln.commits[n].who = b
                   /\ ProviderData(Before(ln, n), x[1]) # ProviderData(After(ln, n), x[1]))
\* ("one consumer" is one incarnation of it: a consumer that was removed and made anew in between
\* passes through the same generations again, and a write carrying one of them is then a write to
\* the new consumer - whether it may succeed is judged by Serializable.)
ChangesCons(ln, n, k, c) ==
  ln.commits[n].who = k /\ ConsAllocs(Before(ln, n), c) # ConsAllocs(After(ln, n), c)
C06_AtMostOne(ln) ==
  \A a, b \in Succeeded(ln) : a # b =>
     \A x \in ConsCarried(ln.reqs[a]) : \A y \in ConsCarried(ln.reqs[b]) :
        (x = y) =>
           \A n, m \in DOMAIN ln.commits :
              (n < m /\ ChangesCons(ln, n, a, x[1]) /\ ChangesCons(ln, m, b, x[1]))
                 => \E j \in n..(m - 1) : x[1] \notin DOMAIN After(ln, j).cons

\* (That a rejected request has no *net* effect is part of Serializable: the
\* final database equals the serial execution of the successful requests only.
\* Its intermediate commits - a consumer recorded and removed again - are
\* visible to others; what others may do with them is judged by the same
\* criterion.)

\* C10 on the commit sequence: no committed transaction moves a generation backwards
C10_Monotone(ln) ==
  \A n \in DOMAIN ln.commits :
     /\ \A p \in Providers(Before(ln, n)) \cap Providers(After(ln, n)) :
           After(ln, n).rp[p].gen >= Before(ln, n).rp[p].gen
     /\ \A c \in (DOMAIN Before(ln, n).cons) \cap (DOMAIN After(ln, n).cons) :
           /\ After(ln, n).cons[c].gen >= Before(ln, n).cons[c].gen
           \* a commit that changes the consumer's allocations strictly increases its generation
           /\ (ConsAllocs(Before(ln, n), c) # ConsAllocs(After(ln, n), c)
               /\ ln.reqs[ln.commits[n].who].op \in AllocWriters)
                 => After(ln, n).cons[c].gen > Before(ln, n).cons[c].gen
     \* a commit that changes a provider's inventories or traits strictly increases its generation
     /\ \A p \in Providers(Before(ln, n)) \cap Providers(After(ln, n)) :
           (Before(ln, n).inv[p] # After(ln, n).inv[p] \/ Before(ln, n).traits[p] # After(ln, n).traits[p])
             => After(ln, n).rp[p].gen > Before(ln, n).rp[p].gen

\* C04 on the commit sequence: a request answered with an error committed nothing
\* but (possibly) a consumer record without allocations, which it removes again
DropIdleS(st) == [st EXCEPT !.cons = [c \in {d \in DOMAIN @ : d \in DOMAIN st.alloc} |-> @[c]]]
C04_ErrorsNoEffect(ln) ==
  \A n \in DOMAIN ln.commits :
     ln.resps[ln.commits[n].who].status >= 400 => DropIdleS(Before(ln, n)) = DropIdleS(After(ln, n))

Verdict(ln) ==
     (IF Serializable(ln) THEN {} ELSE {"C07_Serializable"})
\cup (IF \A k \in DOMAIN ln.reqs : ln.resps[k].status < 400 \/ ErrorJustified(ln, k) THEN {} ELSE {"ErrorJustified"})
\cup (IF C10_Monotone(ln) THEN {} ELSE {"C10_Monotone"})
\cup (IF C04_ErrorsNoEffect(ln) THEN {} ELSE {"C04_ErrorsNoEffect"})
\cup (IF C09_Inv(NormState(ln.final)) THEN {} ELSE {"C09_FinalForest"})
\cup (IF C05_Commits(ln) THEN {} ELSE {"C05_Commits"})
\cup (IF C05_AtMostOne(ln) THEN {} ELSE {"C05_AtMostOne"})
\cup (IF C06_Commits(ln) THEN {} ELSE {"C06_Commits"})
\cup (IF C06_AtMostOne(ln) THEN {} ELSE {"C06_AtMostOne"})
\cup (IF C08_Inv(NormState(ln.final)) /\ C12_Inv(NormState(ln.final)) THEN {} ELSE {"FinalInvariants"})
\cup (IF C08_Inv(NormState(ln.final)) /\ C09_Inv(NormState(ln.final)) THEN {} ELSE {"C08_FinalRefIntegrity"})
\cup (IF C12_Inv(NormState(ln.final)) THEN {} ELSE {"C12_FinalConsumers"})
\cup (IF C19_Inv(NormState(ln.final)) THEN {} ELSE {"C19_FinalIds"})
\* C11: the views of allocations agree (usages sum rows, the per-consumer view shows one per
\* provider and class): no duplicate rows, no rows the per-provider views cannot show
\cup (IF ln.residue = 0 THEN {} ELSE {"C11_FinalViewsAgree"})

Init == i = 1
Next == /\ i <= Len(Log)
        /\ PrintT(<<"SV", Log[i].id, Verdict(Log[i])>>)
        /\ i' = i + 1
        /\ TLCSet(1, i)
Spec == Init /\ [][Next]_i
AllConsumed == TLCGet(1) = Len(Log)
ASSUME TLCSet(1, 0)
=============================================================================
