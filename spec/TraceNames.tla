----------------------------- MODULE TraceNames -----------------------------
(***************************************************************************)
(* Binds Names.tla to the implementation: every line is one creating       *)
(* request sent to the real service with the name it asked for (code       *)
(* points), whether a class / trait of exactly that name was stored        *)
(* before, the status, and the names that appeared in and disappeared      *)
(* from the table.  TLC judges each line against Names!Create.             *)
(*                                                                         *)
(* line: [id, kind, cp, existed, status, created, removed, others]         *)
(*   created / removed: sequences of names (code points); others: TRUE     *)
(*   when any other table changed.                                         *)
(***************************************************************************)
EXTENDS NameRules, TLC, Json, IOUtils

VARIABLES i
Log == ndJsonDeserialize(IOEnv.TRACE_FILE)
Range(s) == {s[k] : k \in DOMAIN s}

Verdict(ln) ==
  LET legal == LegalCustom(ln.cp)
      made == Range(ln.created)
      exp == ExpectedStatus(ln.kind, ln.cp, ln.existed)
      shouldMake == IF legal /\ ~ln.existed THEN {ln.cp} ELSE {} IN
     (IF \E n \in made : ~LegalCustom(n) THEN {"C19_illegal_name_stored"} ELSE {})
\cup (IF ~legal /\ ln.status < 300 THEN {"illegal_name_accepted"} ELSE {})
\cup (IF made \ {ln.cp} # {} THEN {"other_name_stored"} ELSE {})
\cup (IF ln.existed /\ legal /\ (ln.status # exp \/ made # {}) THEN {"C19_existing_name_not_idempotent"} ELSE {})
\cup (IF Len(ln.created) # Cardinality(made) THEN {"C19_duplicate"} ELSE {})
\cup (IF ln.status >= 300 /\ (made # {} \/ Len(ln.removed) > 0 \/ ln.others) THEN {"refused_with_effect"} ELSE {})
\cup (IF ln.status # exp THEN {"status_differs"} ELSE {})
\cup (IF made # shouldMake THEN {"stored_differs"} ELSE {})

Init == i = 1
Next == /\ i <= Len(Log)
        /\ PrintT(<<"NV", Log[i].id, Verdict(Log[i]), ExpectedStatus(Log[i].kind, Log[i].cp, Log[i].existed)>>)
        /\ i' = i + 1
        /\ TLCSet(1, i)
Spec == Init /\ [][Next]_i
AllConsumed == TLCGet(1) = Len(Log)
ASSUME TLCSet(1, 0)
=============================================================================
