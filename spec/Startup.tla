------------------------------ MODULE Startup ------------------------------
(***************************************************************************)
(* The start-up synchronisation of the standard traits and resource        *)
(* classes as the process sees it (placement/deploy.py:update_database,    *)
(* objects/trait.py and objects/resource_class.py:ensure_sync): two        *)
(* module-level flags "this process has synchronised", set after the       *)
(* synchronising transaction committed; a start-up that fails leaves the   *)
(* process alive and the WSGI server calls the application factory again.  *)
(*                                                                         *)
(* One action per transaction of the code: SyncTraits, SyncClasses (each   *)
(* either commits everything missing or is rolled back as a whole); a      *)
(* deadlock is retried inside the action (wrap_db_retry) and is therefore  *)
(* not a separate step.  FLAG_IN_FINALLY = TRUE is the variant in which    *)
(* the flag is set whether or not the transaction committed (the seeded    *)
(* change red-D-1); Startup_bad.cfg shows that UpMeansComplete fails then. *)
(*                                                                         *)
(* Bound to the code by pv/faults.py: every statement of the start-up from *)
(* an empty, partial and full database is failed once (the Fail steps),    *)
(* the final state must be the initial one, and the start-up that follows  *)
(* in the same process must leave every standard name present              *)
(* (TraceFault: C19_/C17_StartupAfterFailedStartupIncomplete).             *)
(***************************************************************************)
EXTENDS Naturals, FiniteSets

CONSTANTS StdT, StdC,        \* the standard traits / classes of the libraries
          MAXFAULTS,         \* bound on injected failures
          FLAG_IN_FINALLY    \* FALSE: the code as it is

VARIABLES traits, classes,   \* standard names present in the database
          syncedT, syncedC,  \* the process-wide flags
          pc,                \* "down" | "syncT" | "syncC" | "up"
          faults

vars == <<traits, classes, syncedT, syncedC, pc, faults>>

Init == /\ traits \in SUBSET StdT      \* empty, partially or fully synchronised
        /\ classes \in SUBSET StdC
        /\ syncedT = FALSE /\ syncedC = FALSE
        /\ pc = "down" /\ faults = 0

\* the application factory is called (first request, or again after a failure)
Start == pc = "down" /\ pc' = "syncT" /\ UNCHANGED <<traits, classes, syncedT, syncedC, faults>>

SyncTraits ==
  /\ pc = "syncT"
  /\ IF syncedT THEN pc' = "syncC" /\ UNCHANGED <<traits, syncedT, faults>>
     ELSE \/ traits' = StdT /\ syncedT' = TRUE /\ pc' = "syncC" /\ UNCHANGED faults
          \/ /\ faults < MAXFAULTS          \* any error but a deadlock: rolled back, start-up fails
             /\ faults' = faults + 1
             /\ syncedT' = FLAG_IN_FINALLY
             /\ pc' = "down" /\ UNCHANGED traits
  /\ UNCHANGED <<classes, syncedC>>

SyncClasses ==
  /\ pc = "syncC"
  /\ IF syncedC THEN pc' = "up" /\ UNCHANGED <<classes, syncedC, faults>>
     ELSE \/ classes' = StdC /\ syncedC' = TRUE /\ pc' = "up" /\ UNCHANGED faults
          \/ /\ faults < MAXFAULTS
             /\ faults' = faults + 1
             /\ syncedC' = FLAG_IN_FINALLY
             /\ pc' = "down" /\ UNCHANGED classes
  /\ UNCHANGED <<traits, syncedT>>

\* a request for DELETE / rename of a standard name is refused (400): no step removes one.
\* The process ends and a new one starts against the same database.
NewProcess == /\ pc' = "down" /\ syncedT' = FALSE /\ syncedC' = FALSE
              /\ UNCHANGED <<traits, classes, faults>>

Next == Start \/ SyncTraits \/ SyncClasses \/ NewProcess
Spec == Init /\ [][Next]_vars

TypeOK == /\ traits \subseteq StdT /\ classes \subseteq StdC
          /\ syncedT \in BOOLEAN /\ syncedC \in BOOLEAN
          /\ pc \in {"down", "syncT", "syncC", "up"} /\ faults \in 0..MAXFAULTS

\* C19: after start-up every standard trait and class exists
UpMeansComplete == pc = "up" => traits = StdT /\ classes = StdC
\* the flags tell the truth
FlagsTruthful == (syncedT => traits = StdT) /\ (syncedC => classes = StdC)
\* synchronisation is idempotent and never removes a name
Monotone == [][traits \subseteq traits' /\ classes \subseteq classes']_vars
=============================================================================
