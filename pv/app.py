"""Application factory: the real placement WSGI stack on a file SQLite db.

One long-lived application per process (the enginefacade and the policy
enforcer are process-global).  No source hooks: only oslo.config registration
and SQLAlchemy events are used.
"""
import io
import json
import os
import shutil
import sys
import tempfile
import atexit
import logging

REPO = os.environ.get('PV_REPO', '/repo')
if REPO not in sys.path:
    sys.path.insert(0, REPO)

logging.disable(logging.CRITICAL)

from oslo_config import cfg  # noqa: E402
import webob  # noqa: E402

_APP = None


class App(object):
    def __init__(self, workdir=None):
        import placement.conf
        from placement import db_api
        from placement import deploy
        from placement.db.sqlalchemy import migration

        self.workdir = workdir or tempfile.mkdtemp(prefix='pv-app-')
        self._own_workdir = workdir is None
        self.dbpath = os.path.join(self.workdir, 'placement.db')
        if os.path.exists(self.dbpath):
            os.unlink(self.dbpath)
        conf = cfg.ConfigOpts()
        placement.conf.register_opts(conf)
        # oslo.policy 6 dropped enforce_scope, deploy.deploy() still reads it
        try:
            conf.register_opt(cfg.BoolOpt('enforce_scope', default=True),
                              group='oslo_policy')
        except cfg.DuplicateOptError:
            pass
        conf.set_override('connection', 'sqlite:///' + self.dbpath,
                          group='placement_database')
        conf.set_override('auth_strategy', 'noauth2', group='api')
        conf([], default_config_files=[])
        self.conf = conf
        db_api.configure(conf)
        self.engine = db_api.get_placement_engine()
        migration.create_schema(self.engine)
        self.wsgi = deploy.loadapp(conf)
        self.nreq = 0
        if self._own_workdir:
            atexit.register(self.cleanup)

    def cleanup(self):
        try:
            self.engine.dispose()
        except Exception:
            pass
        shutil.rmtree(self.workdir, ignore_errors=True)

    # -- http ------------------------------------------------------------
    def call(self, method, path, headers=None, body=None):
        """Issue one request in-process.  Returns (status:int, headers:dict
        lower-cased, body:bytes)."""
        hdrs = dict(headers or {})
        if isinstance(body, (dict, list)):
            body = json.dumps(body).encode('utf-8')
        elif isinstance(body, str):
            body = body.encode('utf-8', 'surrogatepass')
        env_extra = {}
        req = webob.Request.blank(path, method=method, headers=hdrs,
                                  environ=env_extra)
        if body is not None:
            req.body = body
        self.nreq += 1
        resp = req.get_response(self.wsgi)
        h = {}
        for k, v in resp.headerlist:
            h[k.lower()] = v
        return resp.status_int, h, resp.body

    # -- state management --------------------------------------------------
    TABLES = ['allocations', 'inventories', 'resource_provider_traits',
              'resource_provider_aggregates', 'placement_aggregates',
              'consumers', 'projects', 'users', 'consumer_types',
              'resource_providers', 'traits', 'resource_classes']

    def wipe(self, sync=True):
        """Empty every table; optionally re-run the start-up sync."""
        from sqlalchemy import text
        with self.engine.connect() as conn:
            for t in self.TABLES:
                conn.execute(text('DELETE FROM %s' % t))
            try:
                conn.execute(text("DELETE FROM sqlite_sequence"))
            except Exception:
                pass
            conn.commit()
        self.reset_caches()
        if sync:
            self.sync()

    def reset_caches(self):
        from placement.objects import resource_class
        from placement.objects import trait
        trait._TRAITS_SYNCED = False
        resource_class._RESOURCE_CLASSES_SYNCED = False

    def sync(self):
        from placement import deploy
        self.reset_caches()
        deploy.update_database(self.conf)

    def snapshot(self, name='snap'):
        dst = os.path.join(self.workdir, name + '.db')
        shutil.copyfile(self.dbpath, dst)
        return dst

    def restore(self, name='snap'):
        src = os.path.join(self.workdir, name + '.db')
        # keep the inode: SQLite connections are per-transaction (NullPool)
        with open(src, 'rb') as f, open(self.dbpath, 'r+b') as g:
            g.truncate(0)
            shutil.copyfileobj(f, g)
        for ext in ('-journal', '-wal', '-shm'):
            p = self.dbpath + ext
            if os.path.exists(p):
                os.unlink(p)


def get_app():
    global _APP
    if _APP is None:
        _APP = App()
    return _APP
