------------------------------ MODULE MC_NameRules ------------------------------
EXTENDS Names
\* tails over a small alphabet containing a legal letter, a legal digit, the
\* underscore, a lower-case letter, a quote, a non-ASCII digit and a newline
Alpha == {65, 48, 95, 97, 34, 1635}
Tails == UNION {[1..n -> Alpha] : n \in 0..2}
MCUniverse == {CustomPrefix \o t : t \in Tails}
          \cup {<<67, 85, 83, 84, 79, 77>> \o t : t \in Tails}      \* "CUSTOM" without _
          \cup {<<86, 67, 80, 85>>, <<72, 87, 95, 65>>}              \* VCPU, HW_A
MCStdClasses == {<<86, 67, 80, 85>>}
MCStdTraits == {<<72, 87, 95, 65>>}
MCRenameSource == CustomPrefix \o <<79, 76, 68>>
Small == Cardinality(classes) + Cardinality(traits) <= 6
=============================================================================
