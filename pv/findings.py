"""Known findings (committed file /verif/known_findings.json, never written at
run time).  An observed violation is compared with the *open* entries by a
structural matcher; `fixed` entries suppress nothing."""
import json
import os

HERE = os.path.dirname(os.path.abspath(__file__))
PATH = os.path.join(os.path.dirname(HERE), 'known_findings.json')


def load():
    with open(PATH) as f:
        return json.load(f)['findings']


def _match(m, sig):
    """m: the entry's match dict; sig: the violation's signature dict.  Every
    key of m must be present in sig and equal (lists: sig value in list)."""
    for k, want in m.items():
        got = sig.get(k)
        if isinstance(want, list):
            if got not in want:
                return False
        elif got != want:
            return False
    return True


def lookup(prop, sig):
    """The open finding that explains signature `sig` for property `prop`."""
    for f in load():
        if f.get('status') != 'open':
            continue
        if prop not in f['properties']:
            continue
        if _match(f['match'], sig):
            return f
    return None
