#!/bin/sh
# Offline set-up: parse every specification module and run the binding self-test.
set -e
cd "$(dirname "$0")"
# all scratch (also the JVM's) under one directory that is removed at the end
SCRATCH="$(mktemp -d /tmp/pv-setup-XXXXXX)"
trap 'rm -rf "$SCRATCH"' EXIT
export TMPDIR="$SCRATCH" JAVA_TOOL_OPTIONS="-Djava.io.tmpdir=$SCRATCH"
for f in spec/*.tla; do
  m=$(basename "$f")
  out=$(cd spec && tla-sany "$m" 2>&1) || { echo "$out"; exit 1; }
  case "$out" in *"*** Errors"*|*"Fatal errors"*) echo "$out"; exit 1;; esac
done
PYTHONHASHSEED=0 PYTHONPATH=. /venv/bin/python -m pv.selftest
echo "setup ok"
