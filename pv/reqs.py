"""Abstract request alphabet of spec/API.tla <-> concrete HTTP.

render(req)            -> (method, path, headers, body)
parse(req, st, h, b)   -> abstract response [status, code, body]

Conventions (same as API.tla): "" key omitted, "null" JSON null, -1 no
generation, "-" key absent in a response, sets as {"x": true}.
"""
import json
from urllib.parse import quote

from pv import names
from pv.project import ratio_to_frac

U = names.to_uuid
N = names.to_name

NOBODY = {'nobody': True}

ADMIN = {'x-auth-token': 'admin', 'x-roles': 'admin,service'}


def headers(v, body=False, extra=None):
    h = dict(ADMIN)
    h['accept'] = 'application/json'
    if v is not None:
        h['openstack-api-version'] = 'placement 1.%d' % v
    if body:
        h['content-type'] = 'application/json'
    if extra:
        h.update(extra)
    return h


def inv_json(i, gen=None):
    d = {'total': i['total'], 'reserved': i['reserved'],
         'min_unit': i['min_unit'], 'max_unit': i['max_unit'],
         'step_size': i['step_size'],
         'allocation_ratio': i['num'] / i['den']}
    if gen is not None:
        d['resource_provider_generation'] = gen
    return d


def _alloc_dict(allocs):
    return {U(a['u']): {'resources': {x['rc']: x['amt'] for x in a['res']}}
            for a in allocs}


def _entry_json(v, e):
    d = {'allocations': _alloc_dict(e['allocs']),
         'project_id': e['project'], 'user_id': e['user']}
    if v >= 28:
        d['consumer_generation'] = None if e['cgen'] == -1 else e['cgen']
    if v >= 38:
        d['consumer_type'] = e['ctype']
    return d


def CU(x):
    """A consumer's uuid as the request spells it: 'cspell' = 'upper' writes
    it in upper case - the same uuid, and the same consumer, to a client."""
    u = U(x['c'])
    return u.upper() if x.get('cspell') == 'upper' else u


def PU(r):
    """The parent's uuid as the request spells it: 'pspell' writes the same
    uuid in another of the forms the uuid format admits."""
    u = U(r['parent'])
    how = r.get('pspell')
    if how == 'upper':
        return u.upper()
    if how == 'nodash':
        return u.replace('-', '')
    if how == 'braces':
        return '{' + u + '}'
    return u


def render(r):
    op = r['op']
    v = r.get('v')
    rp = '/resource_providers'
    if op == 'root':
        return 'GET', '/', headers(v), None
    if op == 'rp_create':
        b = {'name': r['name'], 'uuid': U(r['u'])}
        if r['parent'] == 'null':
            b['parent_provider_uuid'] = None
        elif r['parent'] != '':
            b['parent_provider_uuid'] = PU(r)
        return 'POST', rp, headers(v, True), b
    if op == 'rp_update':
        b = {'name': r['name']}
        if r['parent'] == 'null':
            b['parent_provider_uuid'] = None
        elif r['parent'] != '':
            b['parent_provider_uuid'] = PU(r)
        return 'PUT', '%s/%s' % (rp, U(r['u'])), headers(v, True), b
    if op == 'rp_delete':
        return 'DELETE', '%s/%s' % (rp, U(r['u'])), headers(v), None
    if op == 'rp_get':
        return 'GET', '%s/%s' % (rp, U(r['u'])), headers(v), None
    base = '%s/%s' % (rp, U(r['u'])) if 'u' in r else None
    if op == 'inv_list':
        return 'GET', base + '/inventories', headers(v), None
    if op == 'inv_get':
        return 'GET', base + '/inventories/' + r['rc'], headers(v), None
    if op == 'inv_post':
        b = inv_json(r['inv'])
        b['resource_class'] = r['rc']
        return 'POST', base + '/inventories', headers(v, True), b
    if op == 'inv_put':
        return ('PUT', base + '/inventories/' + r['rc'], headers(v, True),
                inv_json(r['inv'], r['gen']))
    if op == 'inv_put_all':
        b = {'resource_provider_generation': r['gen'],
             'inventories': {x['rc']: inv_json(x['inv']) for x in r['invs']}}
        return 'PUT', base + '/inventories', headers(v, True), b
    if op == 'inv_del':
        return 'DELETE', base + '/inventories/' + r['rc'], headers(v), None
    if op == 'inv_del_all':
        return 'DELETE', base + '/inventories', headers(v), None
    if op == 'rp_usages':
        return 'GET', base + '/usages', headers(v), None
    if op == 'agg_get':
        return 'GET', base + '/aggregates', headers(v), None
    if op == 'agg_put':
        aggs = [U(a) for a in r['aggs']]
        if v >= 19:
            b = {'aggregates': aggs, 'resource_provider_generation': r['gen']}
        else:
            b = aggs
        return 'PUT', base + '/aggregates', headers(v, True), b
    if op == 'rp_traits_get':
        return 'GET', base + '/traits', headers(v), None
    if op == 'rp_traits_put':
        b = {'traits': list(r['traits']),
             'resource_provider_generation': r['gen']}
        return 'PUT', base + '/traits', headers(v, True), b
    if op == 'rp_traits_del':
        return 'DELETE', base + '/traits', headers(v), None
    if op == 'rp_allocs':
        return 'GET', base + '/allocations', headers(v), None
    if op == 'trait_put':
        return 'PUT', '/traits/' + r['name'], headers(v), None
    if op == 'trait_get':
        return 'GET', '/traits/' + r['name'], headers(v), None
    if op == 'trait_del':
        return 'DELETE', '/traits/' + r['name'], headers(v), None
    if op == 'traits_list':
        qs = []
        if r['fkind'] == 'in':
            qs.append('name=in:' + ','.join(r['names']))
        elif r['fkind'] == 'startswith':
            qs.append('name=startswith:' + r['prefix'])
        if r['assoc'] != '':
            qs.append('associated=' + r['assoc'])
        return ('GET', '/traits' + ('?' + '&'.join(qs) if qs else ''),
                headers(v), None)
    if op == 'rc_list':
        return 'GET', '/resource_classes', headers(v), None
    if op == 'rc_get':
        return 'GET', '/resource_classes/' + r['name'], headers(v), None
    if op == 'rc_post':
        return 'POST', '/resource_classes', headers(v, True), {'name': r['name']}
    if op == 'rc_put':
        if v is not None and 2 <= v <= 6:
            return ('PUT', '/resource_classes/' + r['name'],
                    headers(v, True), {'name': r['newname']})
        return 'PUT', '/resource_classes/' + r['name'], headers(v), None
    if op == 'rc_del':
        return 'DELETE', '/resource_classes/' + r['name'], headers(v), None
    if op == 'alloc_get':
        return 'GET', '/allocations/' + CU(r), headers(v), None
    if op == 'alloc_del':
        return 'DELETE', '/allocations/' + CU(r), headers(v), None
    if op == 'alloc_put':
        if v < 12:
            b = {'allocations': [
                {'resource_provider': {'uuid': U(a['u'])},
                 'resources': {x['rc']: x['amt'] for x in a['res']}}
                for a in r['allocs']]}
        else:
            b = {'allocations': _alloc_dict(r['allocs'])}
        if v >= 8:
            b['project_id'] = r['project']
            b['user_id'] = r['user']
        if v >= 28:
            b['consumer_generation'] = None if r['cgen'] == -1 else r['cgen']
        if v >= 38:
            b['consumer_type'] = r['ctype']
        return 'PUT', '/allocations/' + CU(r), headers(v, True), b
    if op == 'alloc_post':
        b = {CU(e): _entry_json(v, e) for e in r['entries']}
        return 'POST', '/allocations', headers(v, True), b
    if op == 'reshape':
        b = {'inventories': {
                U(x['u']): {'resource_provider_generation': x['gen'],
                            'inventories': {y['rc']: inv_json(y['inv'])
                                            for y in x['invs']}}
                for x in r['invs']},
             'allocations': {CU(e): _entry_json(v, e)
                             for e in r['entries']}}
        return 'POST', '/reshaper', headers(v, True), b
    if op == 'usages':
        qs = []
        if r['project'] != '':
            qs.append('project_id=' + quote(r['project']))
        if r['user'] != '':
            qs.append('user_id=' + quote(r['user']))
        if r['ctype'] != '':
            qs.append('consumer_type=' + quote(r['ctype']))
        return ('GET', '/usages' + ('?' + '&'.join(qs) if qs else ''),
                headers(v), None)
    raise ValueError('unknown op %r' % op)


# ---------------------------------------------------------------------------

def _inv_abs(d):
    num, den = ratio_to_frac(d['allocation_ratio'])
    return {'total': d['total'], 'reserved': d['reserved'],
            'min_unit': d['min_unit'], 'max_unit': d['max_unit'],
            'step_size': d['step_size'], 'num': num, 'den': den}


def _setrec(xs):
    return {x: True for x in xs}


def _rp_view(d):
    return {'uuid': N(d['uuid']), 'name': d['name'], 'gen': d['generation'],
            'parent': ('-' if 'parent_provider_uuid' not in d else
                       ('' if d['parent_provider_uuid'] is None
                        else N(d['parent_provider_uuid']))),
            'root': ('-' if 'root_provider_uuid' not in d else
                     ('' if d['root_provider_uuid'] is None
                      else N(d['root_provider_uuid']))),
            'links': _setrec(l['rel'] for l in d.get('links', []))}


def error_code(body):
    try:
        j = json.loads(body)
        return j['errors'][0].get('code', '')
    except Exception:
        return ''


def parse(r, status, hdrs, body):
    """Abstract response.  Raises on an unparsable success body (that is a
    finding of its own and is reported by the caller)."""
    op = r['op']
    if status >= 400:
        return {'status': status, 'code': error_code(body), 'body': NOBODY}
    out = {'status': status, 'code': '', 'body': NOBODY}
    if not body:
        return out
    j = json.loads(body)
    v = r.get('v')
    universe_t = set(names.STD_TRAITS)
    universe_c = set(names.STD_CLASSES)
    if op in ('rp_create', 'rp_update', 'rp_get'):
        out['body'] = _rp_view(j)
    elif op in ('inv_list', 'inv_put_all'):
        out['body'] = {'gen': j['resource_provider_generation'],
                       'invs': {k: _inv_abs(x)
                                for k, x in j['inventories'].items()}}
    elif op in ('inv_get', 'inv_post', 'inv_put'):
        out['body'] = {'gen': j.get('resource_provider_generation', -1),
                       'inv': _inv_abs(j)}
    elif op == 'rp_usages':
        out['body'] = {'gen': j['resource_provider_generation'],
                       'usages': j['usages']}
    elif op in ('agg_get', 'agg_put'):
        out['body'] = {'gen': j.get('resource_provider_generation', -1),
                       'aggs': _setrec(N(a) for a in j['aggregates'])}
    elif op in ('rp_traits_get', 'rp_traits_put'):
        out['body'] = {'gen': j['resource_provider_generation'],
                       'traits': _setrec(j['traits'])}
    elif op == 'rp_allocs':
        out['body'] = {
            'gen': j['resource_provider_generation'],
            'allocs': {N(c): {'res': x['resources'],
                              'cgen': (x['consumer_generation']
                                       if x.get('consumer_generation') is not None
                                       else -1)}
                       for c, x in j['allocations'].items()}}
    elif op == 'traits_list':
        out['body'] = {'traits': _setrec(
            t for t in j['traits']
            if t.startswith('CUSTOM_') or t in universe_t)}
    elif op == 'rc_list':
        out['body'] = {'classes': _setrec(
            x['name'] for x in j['resource_classes']
            if x['name'].startswith('CUSTOM_') or x['name'] in universe_c)}
    elif op in ('rc_get', 'rc_put'):
        out['body'] = {'name': j['name']}
    elif op == 'alloc_get':
        out['body'] = {
            'allocs': {N(p): {'gen': x['generation'], 'res': x['resources']}
                       for p, x in j['allocations'].items()},
            'project': j.get('project_id', '-'),
            'user': j.get('user_id', '-'),
            'cgen': j['consumer_generation'] if 'consumer_generation' in j else -1,
            'ctype': j.get('consumer_type', '-')}
    elif op == 'usages':
        if v is not None and v >= 38:
            bt = {}
            for t, d in j['usages'].items():
                res = {k: x for k, x in d.items() if k != 'consumer_count'}
                bt[t] = {'res': res, 'count': d.get('consumer_count', -1)}
            out['body'] = {'bytype': bt}
        else:
            out['body'] = {'usages': j['usages']}
    elif op == 'root':
        ver = j['versions'][0]
        out['body'] = {'min': int(ver['min_version'].split('.')[1]),
                       'max': int(ver['max_version'].split('.')[1])}
    else:
        out['body'] = NOBODY
    return out
