------------------------------ MODULE TraceFault ------------------------------
(***************************************************************************)
(* Validation of executions with an injected database fault or a crash     *)
(* (pv/faults.py).  One NDJSON line per (request, fault):                  *)
(*   [id, mode ("fault" | "crash"), db0, req, fault : [kind, k, at],       *)
(*    resp, wellformed, final, std_ok, restart_ok]                         *)
(*                                                                         *)
(* C17  a request answered with success has had its effect exactly once    *)
(*      (the state API!Apply prescribes; after a retry generations may     *)
(*      have moved further, but only on the entities the request touches); *)
(*      a request answered with an error has had no effect and the error   *)
(*      is a well-formed JSON error document.                              *)
(* C18  after a crash the surviving state is the state before the request  *)
(*      or the state after it, apart from consumers without allocations;   *)
(*      capacity safety, referential integrity and the forest hold.        *)
(***************************************************************************)
EXTENDS Props, Json, IOUtils

VARIABLES i

Log == ndJsonDeserialize(IOEnv.TRACE_FILE)

NormState(j) ==
  [rp |-> j.rp, inv |-> j.inv, alloc |-> j.alloc, cons |-> j.cons,
   traits |-> [p \in DOMAIN j.traits |-> DOMAIN j.traits[p]],
   aggs |-> [p \in DOMAIN j.aggs |-> DOMAIN j.aggs[p]],
   classes |-> j.classes, ctraits |-> DOMAIN j.ctraits]

\* NoGens, SameUpToRetriedGens: see Props.tla

Differs(a, b) ==
     (IF a.rp = b.rp THEN {} ELSE {"rp"}) \cup (IF a.inv = b.inv THEN {} ELSE {"inv"})
\cup (IF a.alloc = b.alloc THEN {} ELSE {"alloc"}) \cup (IF a.cons = b.cons THEN {} ELSE {"cons"})
\cup (IF a.traits = b.traits THEN {} ELSE {"traits"}) \cup (IF a.aggs = b.aggs THEN {} ELSE {"aggs"})
\cup (IF a.classes = b.classes THEN {} ELSE {"classes"}) \cup (IF a.ctraits = b.ctraits THEN {} ELSE {"ctraits"})

\* consumers without allocations are the residue a crash may leave
DropIdle(s) == [s EXCEPT !.cons = [c \in {d \in DOMAIN @ : d \in DOMAIN s.alloc} |-> @[c]]]

NamedRetry(ln) ==
  \/ ln.fault.kind \in {"deadlock", "deadlock_rb"} /\ ln.req.op \in {"alloc_put", "alloc_post", "sync"}
  \/ ln.fault.kind = "duplicate" /\ ln.req.op = "agg_put"

FaultVerdict(ln) ==
  LET db0 == NormState(ln.db0)
      fin == NormState(ln.final)
      exp == Apply(db0, ln.req)
  IN
     (IF IsOk(ln.resp) /\ ~(ln.resp.status = exp.resp.status /\ SameUpToRetriedGens(db0, exp.s, fin))
      THEN {"C17_SuccessNotExactlyOnce"} \cup {"differs:" \o x : x \in Differs(NoGens(exp.s), NoGens(fin))} ELSE {})
\cup (IF IsErr(ln.resp) /\ fin # db0 THEN {"C17_ErrorWithEffect"} ELSE {})
\* C10: a request answered with an error changes no generation - whatever made it fail
\cup (IF IsErr(ln.resp) /\ (\E p \in Providers(db0) \cap Providers(fin) : fin.rp[p].gen # db0.rp[p].gen
                           \/ \E c \in (DOMAIN db0.cons) \cap (DOMAIN fin.cons) : fin.cons[c].gen # db0.cons[c].gen)
      THEN {"C10_ErrorMovedGeneration"} ELSE {})
\cup (IF IsErr(ln.resp) /\ fin # db0 /\ DropIdle(fin) = DropIdle(db0) THEN {"residue:idle-consumer"} ELSE {})
\* The three situations C17 names - a deadlock during an allocation write or the start-up
\* synchronisation, a duplicate-key race while an aggregate is first recorded - are retried:
\* with one such fault the request succeeds (and, above, exactly once).
\cup (IF ln.fault.kind \in {"deadlock", "deadlock_rb", "duplicate"} /\ NamedRetry(ln) /\ ~IsOk(ln.resp)
         /\ IsOk(exp.resp)
      THEN {"C17_NamedFaultNotRetried"} ELSE {})
\cup (IF IsErr(ln.resp) /\ ~ln.wellformed THEN {"C17_ErrorNotWellFormed"} ELSE {})
\cup (IF ln.resp.status = 599 THEN {"C17_EscapedException"} ELSE {})
\cup (IF IsOk(ln.resp) /\ ~ln.std_ok THEN {"C17_SyncIncomplete"} ELSE {})
\* a start-up that failed is followed by another start-up of the same process (the WSGI server
\* calls the application factory again): after that one the standard names all exist
\cup (IF ln.restart_ok THEN {} ELSE {"C17_StartupAfterFailedStartupIncomplete", "C19_StartupAfterFailedStartupIncomplete"})
\cup (IF C08_Inv(fin) /\ C09_Inv(fin) /\ C12_Inv(fin) THEN {} ELSE {"C17_Invariants"})

CrashVerdict(ln) ==
  LET db0 == NormState(ln.db0)
      fin == NormState(ln.final)
      exp == Apply(db0, ln.req)
  IN
     \* all or nothing (up to how far a generation moved, see Props!SameUpToRetriedGens)
     (IF DropIdle(fin) = DropIdle(db0) \/ SameUpToRetriedGens(DropIdle(db0), DropIdle(exp.s), DropIdle(fin))
      THEN {} ELSE {"C18_PartialEffect"})
\cup (IF C08_Inv(DropIdle(fin)) THEN {} ELSE {"C18_RefIntegrity"})
\cup (IF C09_Inv(fin) THEN {} ELSE {"C18_Forest"})
\cup (IF \A pk \in AllPairs(fin) : Over(fin, pk[1], pk[2]) =>
            (Over(db0, pk[1], pk[2]) \/ ln.req.op \in InventoryWriters)
      THEN {} ELSE {"C18_Overcommit"})
\cup (IF ln.statements_after_crash = 0 THEN {} ELSE {"MACHINERY_statement_after_crash"})

Init == i = 1
Next == /\ i <= Len(Log)
        /\ PrintT(<<"FV", Log[i].id, IF Log[i].mode = "crash" THEN CrashVerdict(Log[i]) ELSE FaultVerdict(Log[i])>>)
        /\ i' = i + 1
        /\ TLCSet(1, i)
Spec == Init /\ [][Next]_i
AllConsumed == TLCGet(1) = Len(Log)
ASSUME TLCSet(1, 0)
=============================================================================
