-------------------------------- MODULE API --------------------------------
(***************************************************************************)
(* The sequential meaning of the Placement REST API.                       *)
(*                                                                         *)
(*   Apply(s, r)  ==  [s |-> next state, resp |-> [status, code, body]]    *)
(*                                                                         *)
(* for an abstract request r = [op, v (microversion minor 0..39), ...] of  *)
(* an authenticated caller holding the admin and service roles (policy and *)
(* authentication are Surface.tla's business).  Each case follows the      *)
(* handler's order of checks because that order decides the status.        *)
(* Reads are Apply with the state unchanged.  Bodies are the abstract      *)
(* projections produced by pv/reqs.py from the JSON documents.             *)
(*                                                                         *)
(* Conventions of the alphabet: "" = key omitted, "null" = JSON null,      *)
(* -1 = no generation (JSON null / key absent), "-" = key absent in a      *)
(* response.  Multi-entry bodies are sequences in document order.          *)
(***************************************************************************)
EXTENDS Data

CU      == "placement.concurrent_update"
UNDEF     == "placement.undefined_code"
INUSE   == "placement.inventory.inuse"
DUPNAME == "placement.duplicate_name"
RPINUSE == "placement.resource_provider.inuse"
RPPARENT == "placement.resource_provider.cannot_delete_parent"
RPNOTFOUND == "placement.resource_provider.not_found"

\* "no body": a record, so that bodies are always comparable
NoBody == [nobody |-> TRUE]
Resp(st, code, body) == [status |-> st, code |-> code, body |-> body]
\* error: state unchanged; the code key exists from 1.23
Err(s, r, st, code)  == [s |-> s, resp |-> Resp(st, IF r.v >= 23 THEN code ELSE "", NoBody)]
Done(s2, st, body)   == [s |-> s2, resp |-> Resp(st, "", body)]

\* sets travel through JSON as characteristic records {"x": true}
AsRec(S) == [x \in S |-> TRUE]

BumpRp(rp, P) == [p \in DOMAIN rp |-> IF p \in P THEN [rp[p] EXCEPT !.gen = @ + 1] ELSE rp[p]]

---------------------------------------------------------------------------
\* resource providers

LinkRels(v) == {"self", "inventories", "usages"}
               \cup (IF v >= 1 THEN {"aggregates"} ELSE {})
               \cup (IF v >= 6 THEN {"traits"} ELSE {})
               \cup (IF v >= 11 THEN {"allocations"} ELSE {})

RpView(s, p, v) ==
  [uuid |-> p, name |-> s.rp[p].name, gen |-> s.rp[p].gen,
   parent |-> IF v >= 14 THEN s.rp[p].parent ELSE "-",
   root   |-> IF v >= 14 THEN s.rp[p].root ELSE "-",
   links  |-> AsRec(LinkRels(v))]

NameTaken(s, name, except) == \E q \in Providers(s) \ {except} : s.rp[q].name = name

RpCreate(s, r) ==
  LET par == IF r.parent \in {"", "null"} THEN NoParent ELSE r.parent IN
  IF r.v < 14 /\ r.parent # "" THEN Err(s, r, 400, UNDEF)
  ELSE IF par # NoParent /\ par = r.u THEN Err(s, r, 400, UNDEF)
  ELSE IF par # NoParent /\ par \notin Providers(s) THEN Err(s, r, 400, UNDEF)
  ELSE IF r.u \in Providers(s) \/ NameTaken(s, r.name, "") THEN Err(s, r, 409, DUPNAME)
  ELSE LET root == IF par = NoParent THEN r.u ELSE s.rp[par].root
           s2 == [s EXCEPT !.rp = With(@, r.u, [name |-> r.name, parent |-> par, root |-> root, gen |-> 0]),
                           !.inv = With(@, r.u, <<>>),
                           !.traits = With(@, r.u, {}),
                           !.aggs = With(@, r.u, {})]
       IN IF r.v < 20 THEN Done(s2, 201, NoBody) ELSE Done(s2, 200, RpView(s2, r.u, r.v))

RpUpdate(s, r) ==
  IF r.u \notin Providers(s) THEN Err(s, r, 404, UNDEF)
  ELSE IF r.v < 14 /\ r.parent # "" THEN Err(s, r, 400, UNDEF)
  ELSE
  LET cur  == s.rp[r.u].parent
      want == IF r.parent = "" THEN cur ELSE IF r.parent = "null" THEN NoParent ELSE r.parent
  IN
  IF want # NoParent /\ want \notin Providers(s) THEN Err(s, r, 400, UNDEF)
  ELSE IF want # NoParent /\ cur # NoParent /\ cur # want /\ r.v < 37 THEN Err(s, r, 400, UNDEF)
  ELSE IF want # NoParent /\ want \in Subtree(s, r.u) THEN Err(s, r, 400, UNDEF)
  ELSE IF want = NoParent /\ cur # NoParent /\ r.v < 37 THEN Err(s, r, 400, UNDEF)
  ELSE IF NameTaken(s, r.name, r.u) THEN Err(s, r, 409, DUPNAME)
  ELSE
  LET newroot == IF want = NoParent THEN r.u ELSE s.rp[want].root
      sub == Subtree(s, r.u)
      rp2 == [p \in Providers(s) |->
                IF p = r.u THEN [s.rp[p] EXCEPT !.name = r.name, !.parent = want, !.root = newroot]
                ELSE IF p \in sub THEN [s.rp[p] EXCEPT !.root = newroot]
                ELSE s.rp[p]]
      s2 == [s EXCEPT !.rp = rp2]
  IN Done(s2, 200, RpView(s2, r.u, r.v))

RpDelete(s, r) ==
  IF r.u \notin Providers(s) THEN Err(s, r, 404, UNDEF)
  ELSE IF Children(s, r.u) # {} THEN Err(s, r, 409, RPPARENT)
  ELSE IF HasAllocs(s, r.u) THEN Err(s, r, 409, RPINUSE)
  ELSE Done([s EXCEPT !.rp = Without(@, {r.u}), !.inv = Without(@, {r.u}),
                      !.traits = Without(@, {r.u}), !.aggs = Without(@, {r.u})], 204, NoBody)

RpGet(s, r) ==
  IF r.u \notin Providers(s) THEN Err(s, r, 404, UNDEF) ELSE Done(s, 200, RpView(s, r.u, r.v))

---------------------------------------------------------------------------
\* inventories

\* "reserved must leave capacity": before 1.26 capacity <= 0 is refused, from 1.26 capacity < 0
CapRuleBad(v, i) == IF v < 26 THEN CapInt(i) <= 0 ELSE CapInt(i) < 0

InvList(s, r) ==
  IF r.u \notin Providers(s) THEN Err(s, r, 404, UNDEF)
  ELSE Done(s, 200, [gen |-> s.rp[r.u].gen, invs |-> s.inv[r.u]])

\* a single inventory shows the provider generation unless it is 0
InvOneBody(s, u, k) == [gen |-> IF s.rp[u].gen = 0 THEN -1 ELSE s.rp[u].gen, inv |-> s.inv[u][k]]

InvGet(s, r) ==
  IF r.u \notin Providers(s) THEN Err(s, r, 404, UNDEF)
  ELSE IF ~HasInv(s, r.u, r.rc) THEN Err(s, r, 404, UNDEF)
  ELSE Done(s, 200, InvOneBody(s, r.u, r.rc))

InvPost(s, r) ==
  IF r.u \notin Providers(s) THEN Err(s, r, 404, UNDEF)
  ELSE IF CapRuleBad(r.v, r.inv) THEN Err(s, r, 400, UNDEF)
  ELSE IF ~ClassKnown(s, r.rc) THEN Err(s, r, 400, UNDEF)
  ELSE IF HasInv(s, r.u, r.rc) THEN Err(s, r, 409, CU)
  ELSE LET s2 == [s EXCEPT !.inv[r.u] = With(@, r.rc, r.inv), !.rp = BumpRp(@, {r.u})]
       IN Done(s2, 201, InvOneBody(s2, r.u, r.rc))

InvPut(s, r) ==
  IF r.u \notin Providers(s) THEN Err(s, r, 404, UNDEF)
  ELSE IF r.gen # s.rp[r.u].gen THEN Err(s, r, 409, CU)
  ELSE IF CapRuleBad(r.v, r.inv) THEN Err(s, r, 400, UNDEF)
  ELSE IF ~ClassKnown(s, r.rc) THEN Err(s, r, 404, UNDEF)
  ELSE IF ~HasInv(s, r.u, r.rc) THEN Err(s, r, 400, UNDEF)
  ELSE LET s2 == [s EXCEPT !.inv[r.u] = With(@, r.rc, r.inv), !.rp = BumpRp(@, {r.u})]
       IN Done(s2, 200, InvOneBody(s2, r.u, r.rc))

\* invs : sequence of [rc, inv]
InvMapRec(invs) == [k \in {invs[i].rc : i \in DOMAIN invs} |->
                      invs[CHOOSE i \in DOMAIN invs : invs[i].rc = k].inv]

InvPutAll(s, r) ==
  IF r.u \notin Providers(s) THEN Err(s, r, 404, UNDEF)
  ELSE IF r.gen # s.rp[r.u].gen THEN Err(s, r, 409, CU)
  ELSE IF \E i \in DOMAIN r.invs : CapRuleBad(r.v, r.invs[i].inv) THEN Err(s, r, 400, UNDEF)
  ELSE IF \E i \in DOMAIN r.invs : ~ClassKnown(s, r.invs[i].rc) THEN Err(s, r, 400, UNDEF)
  ELSE LET new == InvMapRec(r.invs)
           gone == (DOMAIN s.inv[r.u]) \ DOMAIN new
       IN IF gone \cap AllocClasses(s, r.u) # {} THEN Err(s, r, 409, INUSE)
          ELSE LET s2 == [s EXCEPT !.inv[r.u] = new, !.rp = BumpRp(@, {r.u})]
               IN Done(s2, 200, [gen |-> s2.rp[r.u].gen, invs |-> new])

InvDel(s, r) ==
  IF r.u \notin Providers(s) THEN Err(s, r, 404, UNDEF)
  ELSE IF ~ClassKnown(s, r.rc) THEN Err(s, r, 404, UNDEF)
  ELSE IF r.rc \in AllocClasses(s, r.u) THEN Err(s, r, 409, CU)
  ELSE IF ~HasInv(s, r.u, r.rc) THEN Err(s, r, 404, UNDEF)
  ELSE Done([s EXCEPT !.inv[r.u] = Without(@, {r.rc}), !.rp = BumpRp(@, {r.u})], 204, NoBody)

InvDelAll(s, r) ==
  IF r.v < 5 THEN Err(s, r, 405, UNDEF)
  ELSE IF r.u \notin Providers(s) THEN Err(s, r, 404, UNDEF)
  ELSE IF (DOMAIN s.inv[r.u]) \cap AllocClasses(s, r.u) # {} THEN Err(s, r, 409, INUSE)
  ELSE Done([s EXCEPT !.inv[r.u] = <<>>, !.rp = BumpRp(@, {r.u})], 204, NoBody)

RpUsages(s, r) ==
  IF r.u \notin Providers(s) THEN Err(s, r, 404, UNDEF)
  ELSE Done(s, 200, [gen |-> s.rp[r.u].gen,
                     usages |-> [k \in DOMAIN s.inv[r.u] |-> Used(s, r.u, k)]])

---------------------------------------------------------------------------
\* aggregates and traits of a provider

AggGet(s, r) ==
  IF r.v < 1 THEN Err(s, r, 404, UNDEF)
  ELSE IF r.u \notin Providers(s) THEN Err(s, r, 404, UNDEF)
  ELSE Done(s, 200, [gen |-> IF r.v >= 19 THEN s.rp[r.u].gen ELSE -1, aggs |-> AsRec(s.aggs[r.u])])

\* below 1.19 (PutAggregatesLegacy) there is neither a generation check nor a bump
AggPut(s, r) ==
  IF r.v < 1 THEN Err(s, r, 404, UNDEF)
  ELSE IF r.u \notin Providers(s) THEN Err(s, r, 404, UNDEF)
  ELSE IF ~NoDup(r.aggs) THEN Err(s, r, 400, UNDEF)
  ELSE IF r.v >= 19 /\ r.gen # s.rp[r.u].gen THEN Err(s, r, 409, CU)
  ELSE LET s2 == [s EXCEPT !.aggs[r.u] = SeqRange(r.aggs),
                           !.rp = IF r.v >= 19 THEN BumpRp(@, {r.u}) ELSE @]
       IN Done(s2, 200, [gen |-> IF r.v >= 19 THEN s2.rp[r.u].gen ELSE -1, aggs |-> AsRec(SeqRange(r.aggs))])

RpTraitsGet(s, r) ==
  IF r.v < 6 THEN Err(s, r, 404, UNDEF)
  ELSE IF r.u \notin Providers(s) THEN Err(s, r, 404, UNDEF)
  ELSE Done(s, 200, [gen |-> s.rp[r.u].gen, traits |-> AsRec(s.traits[r.u])])

\* PutTraitsNoop: wanted = stored commits nothing and bumps nothing
RpTraitsPut(s, r) ==
  IF r.v < 6 THEN Err(s, r, 404, UNDEF)
  ELSE IF r.u \notin Providers(s) THEN Err(s, r, 404, UNDEF)
  ELSE IF r.gen # s.rp[r.u].gen THEN Err(s, r, 409, CU)
  ELSE IF \E i \in DOMAIN r.traits : ~TraitKnown(s, r.traits[i]) THEN Err(s, r, 400, UNDEF)
  ELSE LET want == SeqRange(r.traits)
           s2 == IF want = s.traits[r.u] THEN s
                 ELSE [s EXCEPT !.traits[r.u] = want, !.rp = BumpRp(@, {r.u})]
       IN Done(s2, 200, [gen |-> s2.rp[r.u].gen, traits |-> AsRec(want)])

RpTraitsDel(s, r) ==
  IF r.v < 6 THEN Err(s, r, 404, UNDEF)
  ELSE IF r.u \notin Providers(s) THEN Err(s, r, 404, UNDEF)
  ELSE IF s.traits[r.u] = {} THEN Done(s, 204, NoBody)
  ELSE Done([s EXCEPT !.traits[r.u] = {}, !.rp = BumpRp(@, {r.u})], 204, NoBody)

RpAllocs(s, r) ==
  IF r.u \notin Providers(s) THEN Err(s, r, 404, UNDEF)
  ELSE Done(s, 200,
        [gen |-> s.rp[r.u].gen,
         allocs |-> [c \in {d \in ConsumersOn(s, r.u) : d \in DOMAIN s.cons} |->
                       [res |-> s.alloc[c][r.u],
                        cgen |-> IF r.v >= 28 THEN s.cons[c].gen ELSE -1]]])

---------------------------------------------------------------------------
\* traits and resource classes

TraitPut(s, r) ==
  IF r.v < 6 THEN Err(s, r, 404, UNDEF)
  ELSE IF r.name \notin CustomTraitPool THEN Err(s, r, 400, UNDEF)
  ELSE IF r.name \in s.ctraits THEN Done(s, 204, NoBody)
  ELSE Done([s EXCEPT !.ctraits = @ \cup {r.name}], 201, NoBody)

TraitGet(s, r) ==
  IF r.v < 6 THEN Err(s, r, 404, UNDEF)
  ELSE IF TraitKnown(s, r.name) THEN Done(s, 204, NoBody) ELSE Err(s, r, 404, UNDEF)

TraitDel(s, r) ==
  IF r.v < 6 THEN Err(s, r, 404, UNDEF)
  ELSE IF ~TraitKnown(s, r.name) THEN Err(s, r, 404, UNDEF)
  ELSE IF r.name \in StdTraits THEN Err(s, r, 400, UNDEF)
  ELSE IF \E p \in Providers(s) : r.name \in s.traits[p] THEN Err(s, r, 409, UNDEF)
  ELSE Done([s EXCEPT !.ctraits = @ \ {r.name}], 204, NoBody)

\* prefix relation on the name pools, tabulated (TLC has no string operators)
\* ("CUSTOM_T_" is a prefix of no pool name: "_" is an ordinary character, not a wildcard)
PrefixPool == {"CUSTOM_", "CUSTOM_T", "CUSTOM_T_", "HW_", "HW_CPU_X86_AVX", "ZZZ"}
HasPrefix(t, pre) ==
  CASE pre \in DOMAIN Vocab.prefixes -> t \in VocabSet(Vocab.prefixes[pre])
    [] pre = "CUSTOM_"  -> t \in CustomTraitPool
    [] pre = "CUSTOM_T" -> t \in CustomTraitPool
    [] pre = "HW_"      -> t \in {"HW_CPU_X86_AVX", "HW_CPU_X86_AVX2"}
    [] pre = "HW_CPU_X86_AVX" -> t \in {"HW_CPU_X86_AVX", "HW_CPU_X86_AVX2"}
    [] OTHER -> FALSE

\* r.fkind in {"", "in", "startswith"}; r.names sequence; r.prefix; r.assoc in {"", "true", "false"}
TraitsList(s, r) ==
  IF r.v < 6 THEN Err(s, r, 404, UNDEF)
  ELSE LET all == StdTraits \cup s.ctraits
           used == UNION {s.traits[p] : p \in Providers(s)}
           byname == CASE r.fkind = "in" -> {t \in all : t \in SeqRange(r.names)}
                       [] r.fkind = "startswith" -> {t \in all : HasPrefix(t, r.prefix)}
                       [] OTHER -> all
           res == CASE r.assoc = "true" -> byname \cap used
                    [] r.assoc = "false" -> byname \ used
                    [] OTHER -> byname
       IN Done(s, 200, [traits |-> AsRec(res)])

NextClassId(s) == IF DOMAIN s.classes = {} THEN MinCustomId
                  ELSE Max({s.classes[k] : k \in DOMAIN s.classes}) + 1

RcList(s, r) ==
  IF r.v < 2 THEN Err(s, r, 404, UNDEF)
  ELSE Done(s, 200, [classes |-> AsRec(StdClasses \cup DOMAIN s.classes)])

RcGet(s, r) ==
  IF r.v < 2 THEN Err(s, r, 404, UNDEF)
  ELSE IF ClassKnown(s, r.name) THEN Done(s, 200, [name |-> r.name]) ELSE Err(s, r, 404, UNDEF)

RcPost(s, r) ==
  IF r.v < 2 THEN Err(s, r, 404, UNDEF)
  ELSE IF r.name \notin CustomClassPool THEN Err(s, r, 400, UNDEF)
  ELSE IF r.name \in DOMAIN s.classes THEN Err(s, r, 409, UNDEF)
  ELSE Done([s EXCEPT !.classes = With(@, r.name, NextClassId(s))], 201, NoBody)

RenameKey(f, old, new) == [k \in ((DOMAIN f) \ {old}) \cup (IF old \in DOMAIN f THEN {new} ELSE {}) |->
                             IF k = new /\ old \in DOMAIN f THEN f[old] ELSE f[k]]

\* 1.2 - 1.6: rename; from 1.7: create-or-verify
RcPut(s, r) ==
  IF r.v < 2 THEN Err(s, r, 404, UNDEF)
  ELSE IF r.v <= 6 THEN
    IF r.newname \notin CustomClassPool THEN Err(s, r, 400, UNDEF)
    ELSE IF ~ClassKnown(s, r.name) THEN Err(s, r, 404, UNDEF)
    ELSE IF r.name \in StdClasses THEN Err(s, r, 400, UNDEF)
    ELSE IF r.newname # r.name /\ r.newname \in DOMAIN s.classes THEN Err(s, r, 409, UNDEF)
    ELSE Done([s EXCEPT !.classes = RenameKey(@, r.name, r.newname),
                        !.inv = [p \in DOMAIN @ |-> RenameKey(@[p], r.name, r.newname)],
                        !.alloc = [c \in DOMAIN @ |-> [p \in DOMAIN @[c] |-> RenameKey(@[c][p], r.name, r.newname)]]],
              200, [name |-> r.newname])
  ELSE
    IF r.name \notin CustomClassPool THEN Err(s, r, 400, UNDEF)
    ELSE IF r.name \in DOMAIN s.classes THEN Done(s, 204, NoBody)
    ELSE Done([s EXCEPT !.classes = With(@, r.name, NextClassId(s))], 201, NoBody)

RcDel(s, r) ==
  IF r.v < 2 THEN Err(s, r, 404, UNDEF)
  ELSE IF ~ClassKnown(s, r.name) THEN Err(s, r, 404, UNDEF)
  ELSE IF r.name \in StdClasses THEN Err(s, r, 400, UNDEF)
  ELSE IF \E p \in Providers(s) : HasInv(s, p, r.name) THEN Err(s, r, 409, UNDEF)
  ELSE Done([s EXCEPT !.classes = Without(@, {r.name})], 204, NoBody)

---------------------------------------------------------------------------
\* allocations

\* An entry is [c, project, user, cgen (-1 = null), ctype, allocs : Seq([u, res : Seq([rc, amt])])].
\* Effective attributes by version: placeholder project/user below 1.8
\* (r.env carries the configured incomplete_consumer_* values), no type below 1.38.
EProject(r, e) == IF r.v < 8 THEN r.env.iproj ELSE e.project
EUser(r, e)    == IF r.v < 8 THEN r.env.iuser ELSE e.user
EType(r, e)    == IF r.v < 38 THEN UnknownType ELSE e.ctype

\* the positive items <<c, u, rc, amt>> of the entries
Items(entries) ==
  UNION {UNION {{<<entries[i].c, entries[i].allocs[j].u, entries[i].allocs[j].res[n].rc, entries[i].allocs[j].res[n].amt>>
                  : n \in DOMAIN entries[i].allocs[j].res}
                : j \in DOMAIN entries[i].allocs}
         : i \in DOMAIN entries}

EntrySchemaBad(e) ==
  \E j \in DOMAIN e.allocs :
     \/ e.allocs[j].res = <<>>
     \/ \E n \in DOMAIN e.allocs[j].res : e.allocs[j].res[n].amt < 1

\* consumer generation check of one entry (from 1.28)
BadConsumerGen(s, v, e) ==
  v >= 28 /\ IF e.c \in DOMAIN s.cons THEN s.cons[e.c].gen # e.cgen ELSE e.cgen # -1

\* The allocation replacement itself: entries are written against state s
\* (for a reshape: the interim state).  Result [ok, status, code, s].
\* Order of checks: unknown provider 400; unknown class 400; then 409 for a
\* provider without any of the inventories, a missing inventory, a unit
\* violation, or the summed amounts exceeding capacity.
WriteAllocs(s, r, entries) ==
  LET items   == Items(entries)
      named   == {entries[i].c : i \in DOMAIN entries}
      writers == {entries[i].c : i \in {n \in DOMAIN entries : entries[n].allocs # <<>>}}
      clearers == {c \in named \ writers : c \in DOMAIN s.alloc}
      visited == writers \cup clearers
      cleared == UNION {{<<c, p, k>> : k \in DOMAIN s.alloc[c][p]} : <<c, p>> \in
                        UNION {{<<c, p>> : p \in DOMAIN s.alloc[c]} : c \in clearers}}
      PV == {it[2] : it \in items} \cup {x[2] : x \in cleared}
      KK == {it[3] : it \in items} \cup {x[3] : x \in cleared}
      s1 == [s EXCEPT !.alloc = Without(@, visited)]
      Total(p, k) == MapThenSumSet(LAMBDA it : it[4], {it \in items : it[2] = p /\ it[3] = k})
      entryOf(c) == entries[CHOOSE i \in DOMAIN entries : entries[i].c = c]
  IN
  IF \E it \in items : it[2] \notin Providers(s) THEN [ok |-> FALSE, status |-> 400, code |-> UNDEF, s |-> s]
  ELSE IF \E k \in KK : ~ClassKnown(s, k) THEN [ok |-> FALSE, status |-> 400, code |-> UNDEF, s |-> s]
  ELSE IF \E p \in PV : \A k \in KK : ~HasInv(s, p, k) THEN [ok |-> FALSE, status |-> 409, code |-> UNDEF, s |-> s]
  ELSE IF \E it \in items :
            \/ ~HasInv(s, it[2], it[3])
            \/ ~UnitsOK(s.inv[it[2]][it[3]], it[4])
            \/ ~Fits(s.inv[it[2]][it[3]], Used(s1, it[2], it[3]) + Total(it[2], it[3]))
       THEN [ok |-> FALSE, status |-> 409, code |-> UNDEF, s |-> s]
  ELSE
  LET newalloc(c) == [p \in {it[2] : it \in {x \in items : x[1] = c}} |->
                        [k \in {it[3] : it \in {x \in items : x[1] = c /\ x[2] = p}} |->
                           (CHOOSE it \in items : it[1] = c /\ it[2] = p /\ it[3] = k)[4]]]
      newcons(c) ==
        LET e == entryOf(c) IN
        IF c \in DOMAIN s.cons
        THEN LET old == s.cons[c]
                 pu == IF EProject(r, e) # old.project \/ EUser(r, e) # old.user
                       THEN [old EXCEPT !.project = EProject(r, e), !.user = EUser(r, e)] ELSE old
                 ty == IF r.v >= 38 /\ EType(r, e) # UnknownType THEN [pu EXCEPT !.ctype = EType(r, e)] ELSE pu
             IN [ty EXCEPT !.gen = @ + 1]
        ELSE [project |-> EProject(r, e), user |-> EUser(r, e), ctype |-> EType(r, e), gen |-> 1]
      alloc2 == [c \in (DOMAIN s1.alloc) \cup writers |-> IF c \in writers THEN newalloc(c) ELSE s1.alloc[c]]
      cons2  == [c \in ((DOMAIN s.cons) \ clearers) \cup writers |-> IF c \in writers THEN newcons(c) ELSE s.cons[c]]
  IN [ok |-> TRUE, status |-> 204, code |-> "",
      s |-> [s EXCEPT !.alloc = alloc2, !.cons = cons2, !.rp = BumpRp(@, PV)]]

AllocWrite(s, r, entries) ==
  IF \E i \in DOMAIN entries : EntrySchemaBad(entries[i]) THEN Err(s, r, 400, UNDEF)
  ELSE IF \E i \in DOMAIN entries : BadConsumerGen(s, r.v, entries[i]) THEN Err(s, r, 409, CU)
  ELSE LET w == WriteAllocs(s, r, entries)
       IN IF w.ok THEN Done(w.s, 204, NoBody) ELSE Err(s, r, w.status, w.code)

\* The list form of PUT /allocations (below 1.12) can name a provider more than once, which a
\* JSON object cannot: the handler turns the list into a dictionary, the last entry of a
\* provider replaces the earlier ones.
LastWins(allocs) ==
  SelectSeq([i \in DOMAIN allocs |-> [allocs[i] EXCEPT !.u = IF \E j \in DOMAIN allocs : j > i /\ allocs[j].u = allocs[i].u
                                                              THEN "" ELSE @]],
            LAMBDA x : x.u # "")

AllocPut(s, r) ==
  LET e == [c |-> r.c, project |-> r.project, user |-> r.user, cgen |-> r.cgen,
            ctype |-> r.ctype, allocs |-> LastWins(r.allocs)]
  IN IF r.v < 28 /\ r.allocs = <<>> THEN Err(s, r, 400, UNDEF)
     ELSE AllocWrite(s, r, <<e>>)

AllocPost(s, r) ==
  IF r.v < 13 THEN Err(s, r, 404, UNDEF)
  ELSE IF r.entries = <<>> THEN Err(s, r, 400, UNDEF)
  ELSE AllocWrite(s, r, r.entries)

AllocGet(s, r) ==
  IF r.c \in DOMAIN s.alloc /\ r.c \in DOMAIN s.cons
  THEN Done(s, 200,
        [allocs  |-> [p \in (DOMAIN s.alloc[r.c]) \cap Providers(s) |->
                        [gen |-> s.rp[p].gen, res |-> s.alloc[r.c][p]]],
         project |-> IF r.v >= 12 THEN s.cons[r.c].project ELSE "-",
         user    |-> IF r.v >= 12 THEN s.cons[r.c].user ELSE "-",
         cgen    |-> IF r.v >= 28 THEN s.cons[r.c].gen ELSE -1,
         ctype   |-> IF r.v >= 38 THEN s.cons[r.c].ctype ELSE "-"])
  ELSE Done(s, 200, [allocs |-> <<>>, project |-> "-", user |-> "-", cgen |-> -1, ctype |-> "-"])

\* DeleteAllocations: no generation changes at all
AllocDel(s, r) ==
  IF ~(r.c \in DOMAIN s.alloc /\ r.c \in DOMAIN s.cons) THEN Err(s, r, 404, UNDEF)
  ELSE Done([s EXCEPT !.alloc = Without(@, {r.c}), !.cons = Without(@, {r.c})], 204, NoBody)

---------------------------------------------------------------------------
\* reshaper: r.invs : Seq([u, gen, invs : Seq([rc, inv])]), r.entries as POST /allocations

RECURSIVE FirstBadInv(_, _, _)
\* walk the inventories part in document order: unknown provider 400, stale generation 409
FirstBadInv(s, invs, i) ==
  IF i > Len(invs) THEN [status |-> 0, code |-> ""]
  ELSE IF invs[i].u \notin Providers(s) THEN [status |-> 400, code |-> RPNOTFOUND]
  ELSE IF invs[i].gen # s.rp[invs[i].u].gen THEN [status |-> 409, code |-> CU]
  ELSE FirstBadInv(s, invs, i + 1)

Reshape(s, r) ==
  IF r.v < 30 THEN Err(s, r, 404, UNDEF)
  ELSE IF r.invs = <<>> THEN Err(s, r, 400, UNDEF)
  ELSE IF \E i \in DOMAIN r.entries : EntrySchemaBad(r.entries[i]) THEN Err(s, r, 400, UNDEF)
  ELSE LET b == FirstBadInv(s, r.invs, 1) IN
  IF b.status # 0 THEN Err(s, r, b.status, b.code)
  ELSE IF \E i \in DOMAIN r.entries : BadConsumerGen(s, r.v, r.entries[i]) THEN Err(s, r, 409, CU)
  ELSE IF \E it \in Items(r.entries) : it[2] \notin Providers(s) THEN Err(s, r, 400, UNDEF)
  ELSE
  LET P == {r.invs[i].u : i \in DOMAIN r.invs}
      newOf(p) == InvMapRec(r.invs[CHOOSE i \in DOMAIN r.invs : r.invs[i].u = p].invs)
      \* interim: old inventory overlaid with the new records (only where a new list is given)
      interim(p) == LET n == newOf(p) IN
                    IF DOMAIN n = {} THEN s.inv[p]
                    ELSE [k \in (DOMAIN s.inv[p]) \cup DOMAIN n |-> IF k \in DOMAIN n THEN n[k] ELSE s.inv[p][k]]
      PI == {p \in P : DOMAIN newOf(p) # {}}
      sI == [s EXCEPT !.inv = [p \in DOMAIN @ |-> IF p \in P THEN interim(p) ELSE @[p]],
                      !.rp = BumpRp(@, PI)]
  IN
  IF \E p \in PI : \E k \in DOMAIN interim(p) : ~ClassKnown(s, k) THEN Err(s, r, 400, UNDEF)
  ELSE LET w == WriteAllocs(sI, r, r.entries) IN
  IF ~w.ok THEN Err(s, r, w.status, w.code)
  ELSE IF \E p \in P : ((DOMAIN w.s.inv[p]) \ DOMAIN newOf(p)) \cap AllocClasses(w.s, p) # {}
       THEN Err(s, r, 409, INUSE)
  ELSE Done([w.s EXCEPT !.inv = [p \in DOMAIN @ |-> IF p \in P THEN newOf(p) ELSE @[p]],
                        !.rp = BumpRp(@, P)], 204, NoBody)

---------------------------------------------------------------------------
\* usages per project / user / consumer type

ConsTotal(s, c, k) == MapThenSumSet(LAMBDA p : AllocOf(s, c, p, k), ProvidersOfCons(s, c))
ConsClasses(s, c)  == UNION {DOMAIN s.alloc[c][p] : p \in ProvidersOfCons(s, c)}
GroupUsage(s, C)   == [k \in UNION {ConsClasses(s, c) : c \in C} |->
                         MapThenSumSet(LAMBDA c : ConsTotal(s, c, k), C)]

Usages(s, r) ==
  IF r.v < 9 THEN Err(s, r, 404, UNDEF)
  ELSE IF r.project = "" THEN Err(s, r, 400, UNDEF)
  ELSE IF r.v < 38 /\ r.ctype # "" THEN Err(s, r, 400, UNDEF)
  ELSE
  LET C == {c \in (DOMAIN s.cons) \cap (DOMAIN s.alloc) :
              /\ s.cons[c].project = r.project
              /\ (r.user = "" \/ s.cons[c].user = r.user)
              /\ ConsClasses(s, c) # {}}
      Grp(D) == [res |-> GroupUsage(s, D), count |-> Cardinality(D)]
  IN
  IF r.v < 38 THEN Done(s, 200, [usages |-> GroupUsage(s, C)])
  ELSE IF r.ctype = "all" THEN
       Done(s, 200, [bytype |-> IF C = {} THEN <<>> ELSE [t \in {"all"} |-> Grp(C)]])
  ELSE IF r.ctype = "unknown" THEN
       LET U == {c \in C : s.cons[c].ctype = UnknownType} IN
       Done(s, 200, [bytype |-> IF U = {} THEN <<>> ELSE [t \in {"unknown"} |-> Grp(U)]])
  ELSE LET D == IF r.ctype = "" THEN C ELSE {c \in C : s.cons[c].ctype = r.ctype}
           types == {s.cons[c].ctype : c \in D}
       IN Done(s, 200, [bytype |-> [t \in types |-> Grp({c \in D : s.cons[c].ctype = t})]])

Root(s, r) == Done(s, 200, [min |-> 0, max |-> 39])

\* Start-up synchronisation of the standard traits and resource classes: the
\* standard vocabulary is a constant of this specification (StdClasses,
\* StdTraits stand for all of it), so at this level Sync changes nothing and is
\* idempotent; that the real tables contain every standard name with the
\* fixed class identifiers after it is checked on the projection (std_ok).
Sync(s, r) == Done(s, 200, NoBody)

---------------------------------------------------------------------------
Ops == {"rp_create", "rp_update", "rp_delete", "rp_get",
        "inv_list", "inv_get", "inv_post", "inv_put", "inv_put_all", "inv_del", "inv_del_all",
        "rp_usages", "agg_get", "agg_put", "rp_traits_get", "rp_traits_put", "rp_traits_del",
        "rp_allocs", "trait_put", "trait_get", "trait_del", "traits_list",
        "rc_list", "rc_get", "rc_post", "rc_put", "rc_del",
        "alloc_put", "alloc_post", "alloc_get", "alloc_del", "reshape", "usages", "root", "sync"}

\* A request may spell the uuid of a parent provider in another form the uuid format admits
\* (upper case, without dashes, in braces): field pspell.  Whether such a spelling names the
\* provider or names nothing is not fixed by the documented meaning, so both readings are
\* allowed - but under either one the answer and the state are those of Apply.
NOPROVIDER == "~nobody"
Readings(r) ==
  IF "pspell" \in DOMAIN r /\ r.op \in {"rp_create", "rp_update"} /\ r.parent \notin {"", "null"}
  THEN {r, [r EXCEPT !.parent = NOPROVIDER]} ELSE {r}

Apply(s, r) ==
  CASE r.op = "rp_create" -> RpCreate(s, r)
    [] r.op = "rp_update" -> RpUpdate(s, r)
    [] r.op = "rp_delete" -> RpDelete(s, r)
    [] r.op = "rp_get"    -> RpGet(s, r)
    [] r.op = "inv_list"  -> InvList(s, r)
    [] r.op = "inv_get"   -> InvGet(s, r)
    [] r.op = "inv_post"  -> InvPost(s, r)
    [] r.op = "inv_put"   -> InvPut(s, r)
    [] r.op = "inv_put_all" -> InvPutAll(s, r)
    [] r.op = "inv_del"   -> InvDel(s, r)
    [] r.op = "inv_del_all" -> InvDelAll(s, r)
    [] r.op = "rp_usages" -> RpUsages(s, r)
    [] r.op = "agg_get"   -> AggGet(s, r)
    [] r.op = "agg_put"   -> AggPut(s, r)
    [] r.op = "rp_traits_get" -> RpTraitsGet(s, r)
    [] r.op = "rp_traits_put" -> RpTraitsPut(s, r)
    [] r.op = "rp_traits_del" -> RpTraitsDel(s, r)
    [] r.op = "rp_allocs" -> RpAllocs(s, r)
    [] r.op = "trait_put" -> TraitPut(s, r)
    [] r.op = "trait_get" -> TraitGet(s, r)
    [] r.op = "trait_del" -> TraitDel(s, r)
    [] r.op = "traits_list" -> TraitsList(s, r)
    [] r.op = "rc_list"   -> RcList(s, r)
    [] r.op = "rc_get"    -> RcGet(s, r)
    [] r.op = "rc_post"   -> RcPost(s, r)
    [] r.op = "rc_put"    -> RcPut(s, r)
    [] r.op = "rc_del"    -> RcDel(s, r)
    [] r.op = "alloc_put" -> AllocPut(s, r)
    [] r.op = "alloc_post" -> AllocPost(s, r)
    [] r.op = "alloc_get" -> AllocGet(s, r)
    [] r.op = "alloc_del" -> AllocDel(s, r)
    [] r.op = "reshape"   -> Reshape(s, r)
    [] r.op = "usages"    -> Usages(s, r)
    [] r.op = "root"      -> Root(s, r)
    [] r.op = "sync"      -> Sync(s, r)

AllocWriters     == {"alloc_put", "alloc_post", "reshape"}
InventoryWriters == {"inv_post", "inv_put", "inv_put_all", "inv_del", "inv_del_all", "reshape", "rc_put"}
ReadOps == {"rp_get", "inv_list", "inv_get", "rp_usages", "agg_get", "rp_traits_get", "rp_allocs",
            "trait_get", "traits_list", "rc_list", "rc_get", "alloc_get", "usages", "root"}

=============================================================================
