"""C19 at character level: send creating requests for resource classes and
traits with crafted and mutated names to the real application, record what
was stored, and let TLC judge each exchange against spec/NameRules.tla
(TraceNames.tla)."""
import json
import os
import random
import shutil
import tempfile
import urllib.parse

from pv import tlc
from pv.reqs import headers

KINDS = ('rc_post', 'rc_put', 'rc_rename', 'trait_put')
RENAME_SOURCE = 'CUSTOM_PV_OLD'

# characters a mutation may insert: legal ones, near misses, quoting and
# escaping characters, white space, digits and letters of other scripts
# (which str.isdigit / \d / \w / upper() treat like ASCII ones)
LEGAL = 'ABCXYZ0189_'
ODD = ['a', 'z', '-', ' ', '.', ':', ',', '"', "'", '\\', '\n', '\t', '\r', '%', '{', '}', '+', '*',
       '٣', '５', '३', '²', '①',      # digits of other scripts, superscript, circled
       'É', 'Ａ', 'А', 'ı', 'ſ', 'ß', 'K',   # letters that case-map to ASCII or look like it
       ' ', ' ', '\x0b', '\x1f', '\x7f', '​', '\U0001f600']

CRAFTED = [
    'CUSTOM_A', 'CUSTOM_A1_B', 'CUSTOM__', 'CUSTOM_0', 'CUSTOM_' + 'A' * 248, 'CUSTOM_' + 'A' * 249,
    'CUSTOM_' + 'Z' * 300, 'CUSTOM_', 'CUSTOM', 'CUSTOM_a', 'custom_A', 'Custom_A', 'CUSTOM-A', 'CUSTOM_A-B',
    'CUSTOM_A B', ' CUSTOM_A', 'CUSTOM_A ', 'CUSTOM_A\n', '\nCUSTOM_A', 'CUSTOM_A\r\n', 'CUSTOM_A\t', 'CUSTOM_A\x0b',
    'XCUSTOM_A', 'VCPU', 'MEMORY_MB', 'HW_CPU_X86_AVX', 'HW_NEW', 'A', '_', '0', 'CUSTOM_A.B', 'CUSTOM_A,CUSTOM_B',
    'CUSTOM_٣', 'CUSTOM_A５', 'CUSTOM_३३', 'CUSTOM_²', 'CUSTOM_É', 'CUSTOM_Ａ',
    'CUSTOM_А', 'CUSTOM_ı', 'CUSTOM_ſ', 'CUSTOM_K', 'ＣUSTOM_A', 'CUSTOM＿A',
    # text that another layer may re-interpret
    'CUSTOM_X", "name": "CUSTOM_A', 'CUSTOM_\\u0041', 'CUSTOM_A\\', 'CUSTOM_A"', 'CUSTOM_A\\n', 'CUSTOM_%41',
    'CUSTOM_A%0a', 'CUSTOM_A%00', "CUSTOM_A' OR '1'='1", 'CUSTOM_A;', 'CUSTOM_A}', '{"name": "CUSTOM_A"}',
    'CUSTOM_A?x=1', 'CUSTOM_A#f', 'CUSTOM_A+B', 'CUSTOM_A*', 'CUSTOM_\U0001f600', 'CUSTOM_A​', 'CUSTOM_A ',
]


def cps(s):
    return [ord(c) for c in s]


def mutate(rnd):
    base = rnd.choice(['CUSTOM_', 'CUSTOM_', 'CUSTOM_', 'CUSTOM', 'CUSTOM__', 'custom_', 'HW_', ''])
    n = rnd.choice([1, 1, 2, 3, 5, 8])
    tail = [rnd.choice(LEGAL) for _ in range(n)]
    k = rnd.choice([0, 0, 1, 1, 2])
    for _ in range(k):
        pos = rnd.randint(0, len(tail))
        tail.insert(pos, rnd.choice(ODD))
    s = base + ''.join(tail)
    if rnd.random() < 0.05:
        s = s + 'A' * (rnd.choice([254, 255, 256]) - len(s))
    return s


def _names(app, table):
    from sqlalchemy import text
    with app.engine.connect() as conn:
        return [r[0] for r in conn.execute(text('SELECT name FROM %s' % table))]


def _others(app):
    from sqlalchemy import text
    out = []
    with app.engine.connect() as conn:
        for t in ('resource_providers', 'inventories', 'allocations', 'consumers'):
            out.append(conn.execute(text('SELECT count(*) FROM %s' % t)).scalar())
    return out


def send(app, kind, name, rnd):
    q = urllib.parse.quote(name, safe='')
    if kind == 'rc_post':
        v = rnd.choice([2, 6, 7, 20, 39])
        return app.call('POST', '/resource_classes', headers(v, body=True), json.dumps({'name': name}))
    if kind == 'rc_put':
        v = rnd.choice([7, 8, 20, 39])
        return app.call('PUT', '/resource_classes/' + q, headers(v), None)
    if kind == 'rc_rename':
        v = rnd.choice([2, 3, 6])
        return app.call('PUT', '/resource_classes/' + RENAME_SOURCE, headers(v, body=True), json.dumps({'name': name}))
    v = rnd.choice([6, 7, 15, 39])
    return app.call('PUT', '/traits/' + q, headers(v), None)


def usable(name):
    # '/' never reaches a handler with a name (the route does not match);
    # lone surrogates cannot travel as UTF-8 text at all
    return '/' not in name and name not in ('.', '..') and not any(0xd800 <= ord(c) <= 0xdfff for c in name) and name != ''


def worker(job):
    from pv.app import get_app
    app = get_app()
    rnd = random.Random(job['seed'])
    app.wipe()
    st, _, _ = app.call('PUT', '/resource_classes/' + RENAME_SOURCE, headers(39), None)
    assert st == 201, st
    app.snapshot('names')
    lines, meta = [], {}
    todo = [(k, n) for n in job['names'] for k in KINDS]
    for _ in range(job['random']):
        todo.append((rnd.choice(KINDS), mutate(rnd)))
    # some names are sent twice in a row: creating an existing name
    dirty = False
    prev = None
    for kind, name in todo:
        if not usable(name):
            continue
        again = prev is not None and rnd.random() < 0.15
        if again:
            name = prev[1]
            kind = rnd.choice([k for k in KINDS if (k == 'trait_put') == (prev[0] == 'trait_put')])
        elif dirty:
            app.restore('names')
            dirty = False
        table = 'traits' if kind == 'trait_put' else 'resource_classes'
        before = _names(app, table)
        if kind == 'rc_rename' and RENAME_SOURCE not in before:
            kind = 'rc_post'        # the class to rename was renamed by the previous request
        o0 = _others(app)
        other_tbl = 'resource_classes' if table == 'traits' else 'traits'
        ob = sorted(_names(app, other_tbl))
        status, rh, rb = send(app, kind, name, rnd)
        after = _names(app, table)
        bset = set(before)
        created = [n for n in after if n not in bset]
        # duplicates of an existing name count as created again
        for n in set(after):
            extra = after.count(n) - before.count(n)
            if n in bset and extra > 0:
                created.extend([n] * extra)
        aset = set(after)
        removed = [n for n in before if n not in aset]
        if kind == 'rc_rename' and status < 300 and RENAME_SOURCE in removed:
            removed.remove(RENAME_SOURCE)
        others = _others(app) != o0 or sorted(_names(app, other_tbl)) != ob
        lid = len(lines) + 1
        lines.append({'id': lid, 'kind': kind, 'cp': cps(name), 'existed': name in bset, 'status': status,
                      'created': [cps(n) for n in created], 'removed': [cps(n) for n in removed], 'others': bool(others)})
        meta[lid] = {'kind': kind, 'name': name, 'status': status, 'created': created, 'removed': removed,
                     'answer': rb[:200].decode('utf-8', 'replace'), 'again': again}
        dirty = dirty or bool(created or removed or others)
        prev = (kind, name) if status < 300 else None
    verdicts = validate(lines)
    bad = []
    hist = {}
    for ln in lines:
        v, exp = verdicts[ln['id']]
        k = '%s:%d' % (ln['kind'], ln['status'])
        hist[k] = hist.get(k, 0) + 1
        if v:
            bad.append(dict(meta[ln['id']], monitors=v, exp_status=exp))
    return {'n': len(lines), 'bad': bad, 'hist': hist}


def validate(lines, timeout=1800):
    d = tempfile.mkdtemp(prefix='pv-names-')
    try:
        path = os.path.join(d, 'names.ndjson')
        with open(path, 'w') as f:
            for ln in lines:
                f.write(json.dumps(ln, sort_keys=True))
                f.write('\n')
        rc, out, wall = tlc.run('TraceNames', 'TraceNames.cfg', env={'TRACE_FILE': path}, workers=1,
                                timeout=timeout, metadir=os.path.join(d, 'm'))
        verdicts = {}
        for v in tlc.printed_values(out, 'NV'):
            verdicts[v[1]] = (sorted(v[2]), v[3])
        if len(verdicts) != len(lines) or 'Error:' in out:
            raise tlc.TLCError('TraceNames judged %d of %d lines (rc %s)\n%s' % (len(verdicts), len(lines), rc, out[-3000:]))
        return verdicts
    finally:
        shutil.rmtree(d, ignore_errors=True)


# which verdict tags concern which property
# C19 speaks about what is stored and about re-creating an existing name; that
# a name outside the pattern is answered 400 (and not, say, accepted after the
# routing layer dropped a trailing newline from the path, which stores the
# legal name) is documented behaviour but not part of C19: those tags are
# reported in the evidence as observations only.
ATTR = {
    'C19': ('C19_illegal_name_stored', 'C19_duplicate', 'C19_existing_name_not_idempotent'),
}


def run(prop, tier, seed):
    import multiprocessing as mp
    nw = 4 if tier == 'quick' else 12
    nrand = 150 if tier == 'quick' else 2500
    jobs = []
    for w in range(nw):
        jobs.append({'seed': seed * 131 + w, 'names': CRAFTED[w::nw], 'random': nrand})
    ctx = mp.get_context('spawn')
    with ctx.Pool(nw) as pool:
        results = pool.map(worker, jobs, chunksize=1)
    out = []
    obs = {}
    for r in results:
        for b in r['bad']:
            tags = [m for m in b['monitors'] if any(m.startswith(p) for p in ATTR[prop])]
            if tags:
                out.append((b, tags))
            else:
                k = '%s %r -> %d (specification: %d)' % (b['kind'], b['name'][:40], b['status'], b['exp_status'])
                obs[k] = sorted(b['monitors'])
    hist = {}
    for r in results:
        for k, v in r['hist'].items():
            hist[k] = hist.get(k, 0) + v
    return out, sum(r['n'] for r in results), hist, obs
