----------------------------- MODULE Candidates -----------------------------
(***************************************************************************)
(* Declarative reference for GET /allocation_candidates and for the        *)
(* filters of GET /resource_providers, written from the statements of      *)
(* C02, C03, C13 and C20 - not from the implementation's algorithm (which  *)
(* has four code paths, per-group SQL and a merge step).  A result is a    *)
(* set comprehension over "an anchor tree, one provider per suffixed       *)
(* group, one provider per class of the unsuffixed group".                 *)
(*                                                                         *)
(* A query q is a record                                                   *)
(*   groups : Seq([suffix, res : [class -> amount], required : Seq(SUBSET  *)
(*            trait) (each an any-of set), forbidden : SUBSET trait,       *)
(*            member_of : Seq(SUBSET agg) (each any-of), forbidden_aggs,   *)
(*            in_tree : provider or ""])                                   *)
(*   policy ("" | "none" | "isolate"), root_required, root_forbidden,      *)
(*   same_subtree : Seq(SUBSET suffix), limit (-1 = none), v.              *)
(* The unsuffixed group has suffix "".                                     *)
(*                                                                         *)
(* Where the prose admits two readings the reference is an envelope:       *)
(* CandMust(s, q) \subseteq observed \subseteq CandMay(s, q); the two      *)
(* differ only at the corners listed at `Strict` below.                    *)
(***************************************************************************)
EXTENDS API

RECURSIVE FnSpace(_, _)
\* all functions f with f[k] \in cand[k] for k \in keys
FnSpace(keys, cand) ==
  IF keys = {} THEN {<<>>}
  ELSE LET k == CHOOSE x \in keys : TRUE
       IN {With(f, k, p) : f \in FnSpace(keys \ {k}, cand), p \in cand[k]}

Sharing(s) == {p \in Providers(s) : IsSharing(s, p)}
TreeP(s, T) == {p \in Providers(s) : s.rp[p].root = T}
\* sharing providers associated through an aggregate with a provider of tree T
SharedFor(s, T) == {sp \in Sharing(s) : \E p \in TreeP(s, T) : s.aggs[p] \cap s.aggs[sp] # {}}

\* strict = TRUE gives the "must" reading, FALSE the "may" reading.  Corners:
\*  (a) a sharing provider that belongs to the anchor tree but shares no
\*      aggregate with any provider of it (not even itself): usable only in "may";
\*  (b) the unsuffixed group confined by in_tree: sharing providers from
\*      outside that tree are usable only in "may";
\*  (c) forbidden aggregates of the unsuffixed group are also applied to the
\*      anchor tree's root in "must" - for tree providers and for sharing
\*      providers reached through that anchor alike (the code drops the
\*      (provider, anchor) pair) - but not in "may".
Usable(s, T, strict) ==
  IF strict THEN (TreeP(s, T) \ Sharing(s)) \cup SharedFor(s, T)
  ELSE TreeP(s, T) \cup SharedFor(s, T)

AnyOfOK(sets, have) == \A n \in DOMAIN sets : sets[n] \cap have # {}

\* membership of a tree is a matter of the parent links (the stored root pointer is C09's business)
SameTree(s, p, q) == p \in Providers(s) /\ q \in Providers(s) /\ TrueRoot(s, p) = TrueRoot(s, q)

\* providers that can satisfy a suffixed group (one provider for everything)
GroupProviders(s, T, g, strict) ==
  {p \in Usable(s, T, strict) :
     /\ \A k \in DOMAIN g.res : HasRoom(s, p, k, g.res[k])
     /\ AnyOfOK(g.required, s.traits[p])
     /\ g.forbidden \cap s.traits[p] = {}
     /\ AnyOfOK(g.member_of, s.aggs[p])
     /\ g.forbidden_aggs \cap s.aggs[p] = {}
     /\ (g.in_tree = "" \/ SameTree(s, p, g.in_tree))}

\* assignments class -> provider for the unsuffixed group
UnsuffixedAssignments(s, T, g, strict) ==
  LET U == Usable(s, T, strict)
      memberOK(p) == \/ AnyOfOK(g.member_of, s.aggs[p])
                     \/ (p \in TreeP(s, T) /\ AnyOfOK(g.member_of, s.aggs[T]))
      notForbiddenAgg(p) == /\ g.forbidden_aggs \cap s.aggs[p] = {}
                            /\ (strict => g.forbidden_aggs \cap s.aggs[T] = {})
      cand == [k \in DOMAIN g.res |->
                 {p \in U : /\ HasRoom(s, p, k, g.res[k])
                            /\ g.forbidden \cap s.traits[p] = {}
                            /\ memberOK(p) /\ notForbiddenAgg(p)}]
  IN {f \in FnSpace(DOMAIN g.res, cand) :
        /\ AnyOfOK(g.required, UNION {s.traits[f[k]] : k \in DOMAIN f})
        /\ (g.in_tree # "" =>
              IF strict THEN SameTree(s, T, g.in_tree) /\ \A k \in DOMAIN f : f[k] \in TreeP(s, T)
              ELSE \A k \in DOMAIN f : SameTree(s, f[k], g.in_tree) \/ f[k] \in Sharing(s))}

SuffixedGroups(q) == {n \in DOMAIN q.groups : q.groups[n].suffix # ""}
UnsuffixedIdx(q) == {n \in DOMAIN q.groups : q.groups[n].suffix = ""}

\* one of the providers is an ancestor-or-self of all the others
SameSubtreeOK(s, ps) == ps = {} \/ \E a \in ps : \A p \in ps : a \in AncOrSelf(s, p)

\* a combination: sel maps each suffixed group index to its provider, ua is the
\* unsuffixed assignment (<<>> if there is no unsuffixed group)
Amount(q, sel, ua, p, k) ==
    MapThenSumSet(LAMBDA n : IF sel[n] = p /\ k \in DOMAIN q.groups[n].res THEN q.groups[n].res[k] ELSE 0, DOMAIN sel)
  + (IF k \in DOMAIN ua /\ ua[k] = p
     THEN q.groups[CHOOSE n \in UnsuffixedIdx(q) : TRUE].res[k] ELSE 0)

UsedPairs(q, sel, ua) ==
  UNION {{<<sel[n], k>> : k \in DOMAIN q.groups[n].res} : n \in DOMAIN sel}
  \cup {<<ua[k], k>> : k \in DOMAIN ua}

ResultOf(s, q, sel, ua) ==
  LET pairs == UsedPairs(q, sel, ua)
      provs == {x[1] : x \in pairs}
  IN [allocs |-> [p \in provs |-> [k \in {x[2] : x \in {y \in pairs : y[1] = p}} |-> Amount(q, sel, ua, p, k)]],
      mappings |-> [sfx \in {q.groups[n].suffix : n \in DOMAIN q.groups} |->
                      IF sfx = "" THEN {ua[k] : k \in DOMAIN ua}
                      ELSE {sel[CHOOSE n \in DOMAIN sel : q.groups[n].suffix = sfx]}]]

CombinationOK(s, q, T, sel, ua) ==
  /\ (q.policy = "isolate" => \A a, b \in DOMAIN sel : a # b => sel[a] # sel[b])
  /\ \A n \in DOMAIN q.same_subtree :
        SameSubtreeOK(s, {sel[m] : m \in {x \in DOMAIN sel : q.groups[x].suffix \in q.same_subtree[n]}})
  /\ q.root_required \subseteq s.traits[T]
  /\ q.root_forbidden \cap s.traits[T] = {}
  /\ \A x \in UsedPairs(q, sel, ua) :
        LET a == Amount(q, sel, ua, x[1], x[2]) IN
        /\ Fits(s.inv[x[1]][x[2]], Used(s, x[1], x[2]) + a)
        /\ a <= s.inv[x[1]][x[2]].max_unit

\* below 1.29 only combinations using at most one provider per tree
OnePerTree(s, res) == \A p, r \in DOMAIN res.allocs : p # r => s.rp[p].root # s.rp[r].root

CandFor(s, q, strict) ==
  LET SG == SuffixedGroups(q)
      UI == UnsuffixedIdx(q)
      perTree(T) ==
        LET cand == [n \in SG |-> GroupProviders(s, T, q.groups[n], strict)]
            sels == FnSpace(SG, cand)
            uas  == IF UI = {} THEN {<<>>}
                    ELSE UnsuffixedAssignments(s, T, q.groups[CHOOSE n \in UI : TRUE], strict)
        IN {ResultOf(s, q, sel, ua) : <<sel, ua>> \in
              {x \in sels \X uas : CombinationOK(s, q, T, x[1], x[2])}}
      all == UNION {perTree(T) : T \in Roots(s)}
  IN IF q.v >= 29 THEN all ELSE {r \in all : OnePerTree(s, r)}

CandMust(s, q) == CandFor(s, q, TRUE)
CandMay(s, q)  == CandFor(s, q, FALSE)

\* names a query mentions that must exist (else 400)
QueryClasses(q) == UNION {DOMAIN q.groups[n].res : n \in DOMAIN q.groups}
QueryTraits(q) == UNION {UNION {q.groups[n].required[m] : m \in DOMAIN q.groups[n].required} \cup q.groups[n].forbidden
                         : n \in DOMAIN q.groups} \cup q.root_required \cup q.root_forbidden
QueryBad(s, q) == (\E k \in QueryClasses(q) : ~ClassKnown(s, k)) \/ (\E t \in QueryTraits(q) : ~TraitKnown(s, t))

---------------------------------------------------------------------------
\* provider summaries (C02): capacity, used, traits, parent / root per version
SummaryOf(s, p, v, reqClasses) ==
  [res |-> [k \in (IF v >= 27 THEN DOMAIN s.inv[p] ELSE (DOMAIN s.inv[p]) \cap reqClasses) |->
              [capacity |-> CapInt(s.inv[p][k]), used |-> Used(s, p, k)]],
   traits |-> IF v >= 17 THEN AsRec(s.traits[p]) ELSE [absent |-> TRUE],
   parent |-> IF v >= 29 THEN s.rp[p].parent ELSE "-",
   root   |-> IF v >= 29 THEN s.rp[p].root ELSE "-"]

\* C02: structural laws of one observed allocation request w.r.t. the query
\* (needs only the response and the query, not the reference set)
PlacesExactly(q, res) ==
  LET classes == QueryClasses(q)
      asked(k) == MapThenSumSet(LAMBDA n : IF k \in DOMAIN q.groups[n].res THEN q.groups[n].res[k] ELSE 0, DOMAIN q.groups)
      placed(k) == MapThenSumSet(LAMBDA p : IF k \in DOMAIN res.allocs[p] THEN res.allocs[p][k] ELSE 0, DOMAIN res.allocs)
  IN \A k \in classes \cup UNION {DOMAIN res.allocs[p] : p \in DOMAIN res.allocs} : asked(k) = placed(k)

\* with mappings (>= 1.34): each suffixed group in full on its one provider,
\* each unsuffixed class on one provider of the "" mapping
MappingsOK(q, res) ==
  /\ \A n \in SuffixedGroups(q) :
        LET g == q.groups[n] IN
        /\ g.suffix \in DOMAIN res.mappings
        /\ Cardinality(res.mappings[g.suffix]) = 1
        /\ \A p \in res.mappings[g.suffix] : \A k \in DOMAIN g.res :
              p \in DOMAIN res.allocs /\ k \in DOMAIN res.allocs[p] /\ res.allocs[p][k] >= g.res[k]
  /\ \A n \in UnsuffixedIdx(q) :
        LET g == q.groups[n] IN
        /\ "" \in DOMAIN res.mappings
        /\ \A k \in DOMAIN g.res : \E p \in res.mappings[""] :
              p \in DOMAIN res.allocs /\ k \in DOMAIN res.allocs[p] /\ res.allocs[p][k] >= g.res[k]

---------------------------------------------------------------------------
\* C02: the allocation write that claims a returned request for a consumer that
\* does not exist yet; Apply must accept it
ClaimReq(r) ==
  [op |-> "alloc_put", v |-> 39, c |-> "c9", project |-> "proj1", user |-> "user1", cgen |-> -1, ctype |-> "INSTANCE",
   env |-> [iproj |-> "x", iuser |-> "x"],
   allocs |-> LET ps == SetToSeq(DOMAIN r.allocs) IN
              [n \in DOMAIN ps |-> [u |-> ps[n],
                                    res |-> LET ks == SetToSeq(DOMAIN r.allocs[ps[n]]) IN
                                            [m \in DOMAIN ks |-> [rc |-> ks[m], amt |-> r.allocs[ps[n]][ks[m]]]]]]]


\* GET /resource_providers filters (C13).  f = [name, uuid, in_tree ("" = absent),
\* member_of : Seq(SUBSET agg), forbidden_aggs, required : Seq(SUBSET trait),
\* forbidden, resources : [class -> amount]]
ListProviders(s, f) ==
  {p \in Providers(s) :
     \* a provider may be named "": an absent name filter is has_name = FALSE, not name = ""
     /\ (~f.has_name \/ s.rp[p].name = f.name)
     /\ (f.uuid = "" \/ p = f.uuid)
     /\ (f.in_tree = "" \/ SameTree(s, p, f.in_tree))
     /\ AnyOfOK(f.member_of, s.aggs[p])
     /\ f.forbidden_aggs \cap s.aggs[p] = {}
     /\ AnyOfOK(f.required, s.traits[p])
     /\ f.forbidden \cap s.traits[p] = {}
     /\ \A k \in DOMAIN f.resources : HasRoom(s, p, k, f.resources[k])}
ListBad(s, f) ==
  \/ \E k \in DOMAIN f.resources : ~ClassKnown(s, k)
  \/ \E t \in (UNION {f.required[m] : m \in DOMAIN f.required}) \cup f.forbidden : ~TraitKnown(s, t)
=============================================================================
