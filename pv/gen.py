"""State-aware random generation of abstract requests (the alphabet of
spec/API.tla).  The generator looks at the projected state only to *bias*
choices towards interesting cases (current / stale generations, amounts at the
capacity boundary, names that exist / do not exist); the oracle is TLC."""
import random

from pv import names

RATIOS = [(1, 1), (1, 1), (2, 1), (1, 2), (1, 4), (3, 2), (16, 1), (1, 8), (4, 1)]
TOTALS = [1, 2, 3, 4, 8, 10, 16, 100]
MAXINT = 2147483647


class Gen(object):
    def __init__(self, rnd, nprov=5, ncons=4, versions=None, weights=None,
                 classes=None):
        self.rnd = rnd
        self.provs = ['p%d' % i for i in range(1, nprov + 1)]
        self.cons = ['c%d' % i for i in range(1, ncons + 1)]
        self.aggs = ['agg1', 'agg2', 'agg3']
        self.classes = classes or ['VCPU', 'MEMORY_MB', 'DISK_GB', 'CUSTOM_RC1',
                                   'CUSTOM_RC2']
        self.versions = versions
        self.weights = weights or {}

    # -- small helpers -----------------------------------------------------
    def v(self, lo=0):
        r = self.rnd
        if self.versions:
            cand = [x for x in self.versions if x >= lo] or [39]
            return r.choice(cand)
        x = r.random()
        if x < 0.45:
            return 39
        if x < 0.6:
            return r.choice([x for x in (0, 1, 5, 6, 7, 8, 11, 12, 13, 14, 18, 19, 20,
                                         22, 23, 25, 26, 27, 28, 29, 30, 33, 34,
                                         36, 37, 38) if x >= lo] or [39])
        return r.randint(lo, 39)

    def prov(self, st, existing=0.85):
        ex = sorted(st['rp'])
        if ex and self.rnd.random() < existing:
            return self.rnd.choice(ex)
        return self.rnd.choice(self.provs)

    def gen_for(self, st, u):
        cur = st['rp'][u]['gen'] if u in st['rp'] else 0
        x = self.rnd.random()
        if x < 0.8:
            return cur
        if x < 0.9:
            return max(cur - 1, 0) if cur else 1
        return cur + 1

    def klass(self, st, known=0.92):
        r = self.rnd
        if r.random() < known:
            cand = [k for k in self.classes
                    if not k.startswith('CUSTOM_') or k in st['classes']]
            return r.choice(cand)
        return r.choice(self.classes + names.BOGUS_UPPER)

    def inv(self):
        r = self.rnd
        total = r.choice(TOTALS)
        x = r.random()
        if x < 0.6:
            reserved = 0
        else:
            reserved = r.choice([1, max(total - 1, 0), total, total + 1])
        num, den = r.choice(RATIOS)
        mn = r.choice([1, 1, 1, 2])
        mx = r.choice([MAXINT, total, 4, 2, 1, max(total * num // den, 1)])
        step = r.choice([1, 1, 1, 2, 3])
        return {'total': total, 'reserved': reserved, 'min_unit': mn,
                'max_unit': mx, 'step_size': step, 'num': num, 'den': den}

    def used(self, st, p, k, skip=()):
        n = 0
        for c, d in st['alloc'].items():
            if c in skip:
                continue
            n += d.get(p, {}).get(k, 0)
        return n

    def amount(self, st, p, k, skip=(), pvalid=0.6):
        """Boundary-biased amount for (p, k)."""
        r = self.rnd
        i = st['inv'].get(p, {}).get(k)
        if not i:
            return r.choice([1, 2, 5])
        cap = (i['total'] - i['reserved']) * i['num'] // i['den']
        room = cap - self.used(st, p, k, skip)
        hi = min(i['max_unit'], room, 10 ** 6)
        lo = i['min_unit']
        step = i['step_size']
        first = -(-lo // step) * step
        if first <= hi and r.random() < pvalid:
            last = (hi // step) * step
            n = (last - first) // step
            return r.choice([first, last, first + step * r.randint(0, n)])
        cands = [room - 1, room, room + 1, i['min_unit'] - 1, i['min_unit'],
                 min(i['max_unit'], 10 ** 6), min(i['max_unit'], 10 ** 6) + 1,
                 i['step_size'], i['step_size'] * 2, i['step_size'] + 1,
                 1, 2, (room // 2)]
        cands = [c for c in cands if 1 <= c <= 10 ** 6]
        if not cands or r.random() < 0.03:
            return r.choice([0, 1])
        return r.choice(cands)

    def allocs(self, st, c=None, maxprov=2, skip=None):
        r = self.rnd
        ex = sorted(p for p in st['rp'] if st['inv'].get(p))
        pool = ex if ex and r.random() < 0.9 else sorted(st['rp']) or self.provs
        if r.random() < 0.05:
            pool = self.provs
        n = r.randint(1, min(maxprov, len(pool)))
        ps = r.sample(pool, n)
        out = []
        skip = skip if skip is not None else ((c,) if c else ())
        # most requests are entirely valid; the others have one item at a
        # boundary (so that the boundary item decides the outcome)
        nitems = [0]
        edge = None if r.random() < 0.5 else r.randint(0, 2)
        for p in ps:
            ks = sorted(st['inv'].get(p, {})) or [self.klass(st)]
            if r.random() < 0.08:
                k = self.klass(st, known=0.5)
                if k not in ks:
                    ks = ks + [k]
            m = r.randint(1, min(2, len(ks)))
            res = []
            for k in r.sample(ks, m):
                pv = 0.0 if nitems[0] == edge else 0.97
                nitems[0] += 1
                res.append({'rc': k, 'amt': self.amount(st, p, k, skip, pv)})
            out.append({'u': p, 'res': res})
        return out

    def entry(self, st, c, allow_empty=True, skip=None):
        r = self.rnd
        cur = st['cons'].get(c)
        x = r.random()
        if cur:
            cgen = cur['gen'] if x < 0.8 else (-1 if x < 0.9 else cur['gen'] + 1)
        else:
            cgen = -1 if x < 0.88 else r.choice([0, 1])
        if cur and r.random() < 0.7:
            project, user = cur['project'], cur['user']
        else:
            project, user = r.choice(names.PROJECTS), r.choice(names.USERS)
        if cur and cur['ctype'] != 'unknown' and r.random() < 0.7:
            ctype = cur['ctype']
        else:
            ctype = r.choice(names.CTYPES)
        empty = allow_empty and r.random() < (0.25 if cur else 0.05)
        return {'c': c, 'project': project, 'user': user, 'cgen': cgen,
                'ctype': ctype,
                'allocs': [] if empty else self.allocs(st, c, skip=skip)}

    # -- operations ----------------------------------------------------------
    def rp_create(self, st):
        r = self.rnd
        free = [p for p in self.provs if p not in st['rp']]
        u = r.choice(free) if free and r.random() < 0.9 else r.choice(self.provs)
        v = self.v()
        x = r.random()
        if x < 0.5 or not st['rp']:
            parent = '' if r.random() < 0.8 else 'null'
        elif x < 0.92:
            parent = r.choice(sorted(st['rp']))
        else:
            parent = r.choice(self.provs)
        name = u if r.random() < 0.93 else r.choice(self.provs)
        return {'op': 'rp_create', 'v': v, 'u': u, 'name': name, 'parent': parent}

    def rp_update(self, st):
        r = self.rnd
        u = self.prov(st)
        x = r.random()
        if x < 0.25:
            parent = ''
        elif x < 0.4:
            parent = 'null'
        elif x < 0.95 and st['rp']:
            parent = r.choice(sorted(st['rp']))
        else:
            parent = r.choice(self.provs)
        name = u if r.random() < 0.7 else r.choice(self.provs + [u + 'x'])
        v = r.choice([39, 39, 38, 37, 36, 36, 14, 20, 13, 10]) if not self.versions else self.v()
        return {'op': 'rp_update', 'v': v, 'u': u, 'name': name, 'parent': parent}

    def rp_delete(self, st):
        return {'op': 'rp_delete', 'v': self.v(), 'u': self.prov(st)}

    def rp_get(self, st):
        return {'op': 'rp_get', 'v': self.v(), 'u': self.prov(st)}

    def inv_list(self, st):
        return {'op': 'inv_list', 'v': self.v(), 'u': self.prov(st)}

    def inv_get(self, st):
        return {'op': 'inv_get', 'v': self.v(), 'u': self.prov(st),
                'rc': self.klass(st)}

    def inv_post(self, st):
        return {'op': 'inv_post', 'v': self.v(), 'u': self.prov(st),
                'rc': self.klass(st), 'inv': self.inv()}

    def _shrinking_inv(self, st, u, k):
        """An inventory around the current usage of (u, k): just enough, just
        too little."""
        cur = st['inv'].get(u, {}).get(k)
        if cur and self.rnd.random() < 0.25:
            # the same capacity, one unit constraint tightened
            i = dict(cur)
            which = self.rnd.choice(['max_unit', 'min_unit', 'step_size'])
            i[which] = self.rnd.choice([1, 2] if which == 'max_unit' else [2, 3])
            if i['min_unit'] > i['max_unit']:
                i['max_unit'] = i['min_unit']
            return i
        if cur and 65536 % cur['den'] == 0 and cur['total'] < 1000 and self.rnd.random() < 0.08:
            # the same record, the ratio moved by 2^-16 (or moved back)
            i = dict(cur)
            if cur['den'] == 65536:
                i['num'], i['den'] = (cur['num'] + 32768) // 65536 or 1, 1
            else:
                i['num'] = cur['num'] * (65536 // cur['den']) + self.rnd.choice([1, -1])
                i['den'] = 65536
            return i
        i = self.inv()
        used = self.used(st, u, k)
        if used and self.rnd.random() < 0.7:
            i['num'], i['den'] = self.rnd.choice([(1, 1), (2, 1), (1, 2)])
            want = self.rnd.choice([used - 1, used, used + 1])
            total = max(1, -(-want * i['den'] // i['num']))
            i['total'] = total
            i['reserved'] = 0
        return i

    def inv_put(self, st):
        u = self.prov(st)
        ks = sorted(st['inv'].get(u, {}))
        k = self.rnd.choice(ks) if ks and self.rnd.random() < 0.85 else self.klass(st)
        return {'op': 'inv_put', 'v': self.v(), 'u': u, 'rc': k,
                'gen': self.gen_for(st, u), 'inv': self._shrinking_inv(st, u, k)}

    def inv_put_all(self, st):
        r = self.rnd
        u = self.prov(st)
        cur = sorted(st['inv'].get(u, {}))
        n = r.randint(0, 3)
        ks = set(r.sample(cur, min(len(cur), r.randint(0, len(cur))))) if cur else set()
        while len(ks) < n:
            ks.add(self.klass(st, known=0.95))
        invs = [{'rc': k, 'inv': self._shrinking_inv(st, u, k)} for k in sorted(ks)]
        r.shuffle(invs)
        return {'op': 'inv_put_all', 'v': self.v(), 'u': u,
                'gen': self.gen_for(st, u), 'invs': invs}

    def inv_del(self, st):
        u = self.prov(st)
        ks = sorted(st['inv'].get(u, {}))
        k = self.rnd.choice(ks) if ks and self.rnd.random() < 0.8 else self.klass(st, 0.8)
        return {'op': 'inv_del', 'v': self.v(), 'u': u, 'rc': k}

    def inv_del_all(self, st):
        return {'op': 'inv_del_all', 'v': self.v(), 'u': self.prov(st)}

    def rp_usages(self, st):
        return {'op': 'rp_usages', 'v': self.v(), 'u': self.prov(st)}

    def agg_get(self, st):
        return {'op': 'agg_get', 'v': self.v(), 'u': self.prov(st)}

    def agg_put(self, st):
        r = self.rnd
        u = self.prov(st)
        v = self.v()
        aggs = r.sample(self.aggs, r.randint(0, len(self.aggs)))
        if r.random() < 0.03 and aggs:
            aggs = aggs + [aggs[0]]
        return {'op': 'agg_put', 'v': v, 'u': u,
                'gen': self.gen_for(st, u) if v >= 19 else -1, 'aggs': aggs}

    def rp_traits_get(self, st):
        return {'op': 'rp_traits_get', 'v': self.v(), 'u': self.prov(st)}

    def rp_traits_put(self, st):
        r = self.rnd
        u = self.prov(st)
        known = names.STD_TRAITS + sorted(st['ctraits'])
        if u in st['traits'] and r.random() < 0.2:
            ts = sorted(st['traits'][u])
        else:
            ts = r.sample(known, r.randint(0, min(3, len(known))))
        if r.random() < 0.08:
            ts = ts + [r.choice(names.CUSTOM_TRAITS + names.BOGUS_UPPER)]
        return {'op': 'rp_traits_put', 'v': self.v(), 'u': u,
                'gen': self.gen_for(st, u), 'traits': ts}

    def rp_traits_del(self, st):
        return {'op': 'rp_traits_del', 'v': self.v(), 'u': self.prov(st)}

    def rp_allocs(self, st):
        return {'op': 'rp_allocs', 'v': self.v(), 'u': self.prov(st)}

    def _tname(self):
        return self.rnd.choice(names.CUSTOM_TRAITS * 3 + names.STD_TRAITS + names.BOGUS_UPPER)

    def trait_put(self, st):
        return {'op': 'trait_put', 'v': self.v(), 'name': self._tname()}

    def trait_get(self, st):
        return {'op': 'trait_get', 'v': self.v(), 'name': self._tname()}

    def trait_del(self, st):
        return {'op': 'trait_del', 'v': self.v(), 'name': self._tname()}

    def traits_list(self, st):
        r = self.rnd
        fk = r.choice(['', 'in', 'startswith'])
        return {'op': 'traits_list', 'v': self.v(), 'fkind': fk,
                'names': [self._tname() for _ in range(r.randint(1, 3))] if fk == 'in' else [],
                'prefix': r.choice(names.PREFIX_POOL) if fk == 'startswith' else '',
                'assoc': r.choice(['', '', 'true', 'false'])}

    def _cname(self):
        return self.rnd.choice(names.CUSTOM_CLASSES * 3 + names.STD_CLASSES[:3] + names.BOGUS_UPPER)

    def rc_list(self, st):
        return {'op': 'rc_list', 'v': self.v()}

    def rc_get(self, st):
        return {'op': 'rc_get', 'v': self.v(), 'name': self._cname()}

    def rc_post(self, st):
        return {'op': 'rc_post', 'v': self.v(), 'name': self._cname()}

    def rc_put(self, st):
        v = self.v()
        if self.rnd.random() < 0.4 and not self.versions:
            v = self.rnd.randint(2, 6)
        return {'op': 'rc_put', 'v': v, 'name': self._cname(),
                'newname': self._cname() if v <= 6 else ''}

    def rc_del(self, st):
        return {'op': 'rc_del', 'v': self.v(), 'name': self._cname()}

    def alloc_get(self, st):
        return {'op': 'alloc_get', 'v': self.v(), 'c': self.rnd.choice(self.cons)}

    def alloc_del(self, st):
        r = self.rnd
        ex = sorted(st['cons'])
        c = r.choice(ex) if ex and r.random() < 0.8 else r.choice(self.cons)
        return {'op': 'alloc_del', 'v': self.v(), 'c': c}

    def alloc_put(self, st):
        c = self.rnd.choice(self.cons)
        e = self.entry(st, c)
        d = {'op': 'alloc_put', 'v': self.v()}
        d.update(e)
        if d['v'] < 12 and d['allocs'] and self.rnd.random() < 0.3:
            # list form: the same provider named twice (the last entry replaces the first)
            a = self.rnd.choice(d['allocs'])
            dup = {'u': a['u'], 'res': [dict(x) for x in a['res']]}
            if self.rnd.random() < 0.5:
                for x in dup['res']:
                    x['amt'] = max(1, x['amt'] + self.rnd.choice([-1, 1, 2]))
            d['allocs'] = d['allocs'] + [dup] if self.rnd.random() < 0.5 else [dup] + d['allocs']
        return d

    def alloc_post(self, st):
        r = self.rnd
        n = r.choice([1, 2, 2, 3])
        cs = r.sample(self.cons, min(n, len(self.cons)))
        entries = [self.entry(st, c, skip=tuple(cs)) for c in cs]
        # make several consumers land on one inventory so that only the sum
        # crosses the limit
        if len(entries) > 1 and r.random() < 0.5:
            first = next((e for e in entries if e['allocs']), None)
            if first:
                for e in entries:
                    if e is not first and e['allocs'] and r.random() < 0.7:
                        a = first['allocs'][0]
                        e['allocs'] = [{'u': a['u'], 'res': [dict(x) for x in a['res']]}]
        return {'op': 'alloc_post', 'v': self.v(13 if r.random() < 0.95 else 0),
                'entries': entries}

    def reshape(self, st):
        r = self.rnd
        ex = sorted(st['rp'])
        if not ex:
            ps = [r.choice(self.provs)]
        else:
            ps = r.sample(ex, r.randint(1, min(2, len(ex))))
            if r.random() < 0.05:
                ps.append(r.choice(self.provs))
        invs = []
        for p in dict.fromkeys(ps):
            cur = sorted(st['inv'].get(p, {}))
            ks = set(r.sample(cur, r.randint(0, len(cur)))) if cur else set()
            for _ in range(r.randint(0, 2)):
                ks.add(self.klass(st, known=0.97))
            invs.append({'u': p, 'gen': self.gen_for(st, p),
                         'invs': [{'rc': k, 'inv': self._shrinking_inv(st, p, k)}
                                  for k in sorted(ks)]})
        # a state as it will look with the new inventories, to aim amounts
        st2 = dict(st)
        st2['inv'] = dict(st['inv'])
        for x in invs:
            if x['u'] in st2['inv']:
                m = dict(st2['inv'][x['u']])
                for y in x['invs']:
                    m[y['rc']] = y['inv']
                st2['inv'][x['u']] = m
        cs = r.sample(self.cons, r.randint(0, 2))
        # prefer consumers that already sit on the reshaped providers
        on = sorted(c for c, d in st['alloc'].items() if set(d) & set(ps))
        if on and r.random() < 0.7:
            cs = list(dict.fromkeys(on[:2] + cs))[:3]
        entries = [self.entry(st2, c, skip=tuple(cs)) for c in cs]
        return {'op': 'reshape', 'v': self.v(30 if r.random() < 0.95 else 0),
                'invs': invs, 'entries': entries}

    def usages(self, st):
        r = self.rnd
        v = self.v(9 if r.random() < 0.9 else 0)
        ct = ''
        if r.random() < 0.6:
            ct = r.choice(names.CTYPES + ['all', 'unknown', 'all', 'unknown'])
        return {'op': 'usages', 'v': v,
                'project': r.choice(names.PROJECTS + [names.DEFAULT_IPROJ]) if r.random() < 0.95 else '',
                'user': r.choice(names.USERS + ['']), 'ctype': ct}

    def root(self, st):
        return {'op': 'root', 'v': self.v()}

    DEFAULT_WEIGHTS = {
        'rp_create': 8, 'rp_update': 5, 'rp_delete': 3, 'rp_get': 2,
        'inv_list': 2, 'inv_get': 2, 'inv_post': 6, 'inv_put': 5,
        'inv_put_all': 7, 'inv_del': 3, 'inv_del_all': 2, 'rp_usages': 2,
        'agg_get': 1, 'agg_put': 3, 'rp_traits_get': 1, 'rp_traits_put': 4,
        'rp_traits_del': 1, 'rp_allocs': 2, 'trait_put': 2, 'trait_get': 1,
        'trait_del': 2, 'traits_list': 1, 'rc_list': 1, 'rc_get': 1,
        'rc_post': 2, 'rc_put': 2, 'rc_del': 2, 'alloc_get': 3,
        'alloc_del': 3, 'alloc_put': 12, 'alloc_post': 8, 'reshape': 6,
        'usages': 2, 'root': 1,
    }

    def next(self, st):
        r = self.rnd
        # keep enough substance in the state for the interesting cases
        if not self.weights.get('_nobuild'):
            if len(st['rp']) < 3 and r.random() < 0.6:
                return self.rp_create(st)
            bare = sorted(p for p in st['rp'] if not st['inv'].get(p))
            if bare and not self.weights.get('_noinv') and r.random() < 0.35:
                u = r.choice(bare)
                ks = r.sample(self.classes[:3], r.randint(1, 3))
                inv = []
                for k in ks:
                    i = self.inv()
                    if r.random() < 0.7:
                        i['reserved'] = 0
                        i['min_unit'] = 1
                        i['max_unit'] = MAXINT
                    inv.append({'rc': k, 'inv': i})
                return {'op': 'inv_put_all', 'v': 39, 'u': u,
                        'gen': st['rp'][u]['gen'], 'invs': inv}
        w = dict(self.DEFAULT_WEIGHTS)
        w.update(self.weights)
        ops = sorted(k for k in w if not k.startswith('_') and w[k] > 0)
        op = r.choices(ops, [w[k] for k in ops])[0]
        return self.spell(unique_keys(getattr(self, op)(st)))

    def spell(self, req):
        """Now and then a consumer's uuid is written in upper case: the same
        uuid, hence the same consumer; and a parent's uuid in another of the
        forms the uuid format admits (API!Readings)."""
        r = self.rnd
        if req.get('op') in ('rp_create', 'rp_update') and req['parent'] not in ('', 'null') and r.random() < 0.15:
            req['pspell'] = r.choice(['upper', 'upper', 'nodash', 'braces'])
        if req.get('op') in ('alloc_put', 'alloc_get', 'alloc_del') and r.random() < 0.08:
            req['cspell'] = 'upper'
        if req.get('op') in ('alloc_post', 'reshape'):
            for e in req['entries']:
                if r.random() < 0.08:
                    e['cspell'] = 'upper'
        return req


def _last_wins(items, key):
    out = {}
    for x in items:
        out.pop(x[key], None)
        out[x[key]] = x
    return list(out.values())


def unique_keys(req):
    """A JSON object cannot name a key twice: lists that are rendered as
    objects (resources of a provider, allocations of a consumer, inventories
    of a provider) keep one item per key, as the rendered request does."""
    def fix_allocs(allocs, keep_dup_providers=False):
        if not keep_dup_providers:
            allocs = _last_wins(allocs, 'u')
        for a in allocs:
            a['res'] = _last_wins(a['res'], 'rc')
        return allocs
    if 'allocs' in req:
        # the list form below 1.12 can name a provider twice (the last entry wins)
        req['allocs'] = fix_allocs(req['allocs'], keep_dup_providers=(req.get('op') == 'alloc_put' and req.get('v', 39) < 12))
    for e in req.get('entries', []):
        e['allocs'] = fix_allocs(e['allocs'])
    if req.get('op') == 'alloc_post':
        req['entries'] = _last_wins(req['entries'], 'c')
    if req.get('op') == 'inv_put_all':
        req['invs'] = _last_wins(req['invs'], 'rc')
    if req.get('op') == 'reshape':
        req['invs'] = _last_wins(req['invs'], 'u')
        for p in req['invs']:
            p['invs'] = _last_wins(p['invs'], 'rc')
        req['entries'] = _last_wins(req['entries'], 'c')
    return req
