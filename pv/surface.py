"""Exhaustive probing of the versioned surface (C14) and of the policy table
(C16) of the real service; every observation is judged by TLC against
spec/Surface.tla (spec/TraceSurface.tla)."""
import json
import os
import random
import shutil
import tempfile

from pv import names
from pv import project
from pv import tlc
from pv.scenarios import INV

U = names.to_uuid

OPS = [
    ('/', 'GET'), ('/resource_classes', 'GET'), ('/resource_classes', 'POST'),
    ('/resource_classes/{name}', 'GET'), ('/resource_classes/{name}', 'PUT'),
    ('/resource_classes/{name}', 'DELETE'), ('/resource_providers', 'GET'),
    ('/resource_providers', 'POST'), ('/resource_providers/{uuid}', 'GET'),
    ('/resource_providers/{uuid}', 'PUT'), ('/resource_providers/{uuid}', 'DELETE'),
    ('/resource_providers/{uuid}/inventories', 'GET'),
    ('/resource_providers/{uuid}/inventories', 'POST'),
    ('/resource_providers/{uuid}/inventories', 'PUT'),
    ('/resource_providers/{uuid}/inventories', 'DELETE'),
    ('/resource_providers/{uuid}/inventories/{resource_class}', 'GET'),
    ('/resource_providers/{uuid}/inventories/{resource_class}', 'PUT'),
    ('/resource_providers/{uuid}/inventories/{resource_class}', 'DELETE'),
    ('/resource_providers/{uuid}/usages', 'GET'),
    ('/resource_providers/{uuid}/aggregates', 'GET'),
    ('/resource_providers/{uuid}/aggregates', 'PUT'),
    ('/resource_providers/{uuid}/allocations', 'GET'),
    ('/resource_providers/{uuid}/traits', 'GET'),
    ('/resource_providers/{uuid}/traits', 'PUT'),
    ('/resource_providers/{uuid}/traits', 'DELETE'),
    ('/allocations', 'POST'), ('/allocations/{consumer_uuid}', 'GET'),
    ('/allocations/{consumer_uuid}', 'PUT'), ('/allocations/{consumer_uuid}', 'DELETE'),
    ('/allocation_candidates', 'GET'), ('/traits', 'GET'), ('/traits/{name}', 'GET'),
    ('/traits/{name}', 'PUT'), ('/traits/{name}', 'DELETE'), ('/usages', 'GET'),
    ('/reshaper', 'POST'),
]
ROUTES = sorted(set(r for r, m in OPS))
METHODS = ['GET', 'PUT', 'POST', 'DELETE', 'PATCH', 'HEAD']
SECRETS = None


def concrete(route, method='GET'):
    p = route.replace('{uuid}', U('p2') if method == 'DELETE' and route.endswith('{uuid}') else U('p1'))
    p = p.replace('{consumer_uuid}', U('c1'))
    p = p.replace('{resource_class}', 'VCPU')
    if '/traits/' in p:
        p = p.replace('{name}', 'CUSTOM_T2')
    else:
        p = p.replace('{name}', 'CUSTOM_RC2')
    if route == '/usages':
        p += '?project_id=proj1'
    if route == '/allocation_candidates':
        p += '?resources=VCPU:1'
    return p


def base_state(app):
    import random as _r
    from pv import trace, scenarios
    rec = trace.Recorder(app)
    rec.new_history()
    s = scenarios.S(rec, _r.Random(0))
    s.mk('p1')
    s.mk('p2', 'p1')
    s.mk('p3', 'p1')
    s.mk('p4')
    s.do(op='rc_post', v=39, name='CUSTOM_RC1')
    s.do(op='rc_post', v=39, name='CUSTOM_RC2')
    s.do(op='trait_put', v=39, name='CUSTOM_T1')
    s.do(op='trait_put', v=39, name='CUSTOM_T2')
    s.invs('p1', VCPU=8, DISK_GB=100, MEMORY_MB=1024, CUSTOM_RC1=4)
    s.invs('p2', VCPU=4)
    s.do(op='rp_traits_put', v=39, u='p1', gen=s.gen('p1'), traits=['CUSTOM_T1', 'HW_CPU_X86_AVX'])
    s.do(op='agg_put', v=39, u='p1', gen=s.gen('p1'), aggs=['agg1'])
    s.put('c1', {'p1': {'VCPU': 1, 'DISK_GB': 5}})
    s.put('c3', {'p2': {'VCPU': 2}}, project='proj2', user='user2')
    app.snapshot('surf')
    return rec.state()[0]


def hdr(v='1.39', caller='admin', body=False, accept=True):
    h = {}
    if accept:
        h['accept'] = 'application/json'
    if v is not None:
        h['openstack-api-version'] = 'placement %s' % v
    if body:
        h['content-type'] = 'application/json'
    if caller == 'admin+service':
        h['x-auth-token'] = 'admin'
        h['x-roles'] = 'admin,service'
    elif caller == 'none':
        pass
    elif caller == 'noroles':
        h['x-auth-token'] = 'user1:proj1'
        h['x-roles'] = ''
    elif caller == 'reader_own':
        h['x-auth-token'] = 'user1:proj1'
        h['x-roles'] = 'reader'
    elif caller == 'reader_other':
        h['x-auth-token'] = 'user1:other-project'
        h['x-roles'] = 'reader'
    elif caller == 'member':
        h['x-auth-token'] = 'user1:proj1'
        h['x-roles'] = 'member,reader'
    elif caller == 'admin':
        h['x-auth-token'] = 'user1:proj1'
        h['x-roles'] = 'admin,member,reader'
    elif caller == 'service':
        h['x-auth-token'] = 'nova:service-project'
        h['x-roles'] = 'service'
    elif caller == 'noroles_svchdr':
        # the roles of a service token accompany the request; they are not the caller's
        h['x-auth-token'] = 'user1:proj1'
        h['x-roles'] = ''
        h['x-service-roles'] = 'service,admin'
        h['x-service-token'] = 'nova'
    elif caller == 'reader_svchdr':
        h['x-auth-token'] = 'user1:proj1'
        h['x-roles'] = 'reader'
        h['x-service-roles'] = 'service'
        h['x-service-token'] = 'nova'
    return h


def _ver_of(h):
    x = h.get('openstack-api-version', '')
    try:
        return int(x.split()[-1].split('.')[1])
    except Exception:
        return -1


# ---------------------------------------------------------------------------
# route availability

def route_lines(app):
    lines = []
    versions = [('num', v, '1.%d' % v) for v in range(40)]
    versions += [('latest', 39, 'latest'), ('none', 0, None)]
    versions += [('invalid', -1, x) for x in ('1.40', '0.9', '2.0', '1.100')]
    extra_routes = ['/nonexistent', '/resource_providers/{uuid}/bogus', '/allocations/{consumer_uuid}/x']
    for route in ROUTES + extra_routes:
        for method in METHODS:
            for vkind, v, hv in versions:
                if vkind == 'invalid' and method not in ('GET', 'PUT'):
                    continue
                if route in extra_routes and method not in ('GET', 'POST'):
                    continue
                if method != 'GET':
                    app.restore('surf')
                body = None
                withbody = method in ('PUT', 'POST')
                if withbody:
                    body = b'{}'
                shapes = [('json', hdr(hv, 'admin+service', withbody), body)]
                if withbody and vkind != 'invalid' and route not in extra_routes:
                    # whether a route or method exists at a version does not depend on what the
                    # request carries: the same with another media type, and with nothing at all
                    h2 = hdr(hv, 'admin+service', False)
                    h2['content-type'] = 'text/plain'
                    shapes.append(('text', h2, b'x'))
                    shapes.append(('empty', hdr(hv, 'admin+service', False), None))
                for shape, hh, bb in shapes:
                    st, h, b = app.call(method, concrete(route, method), hh, bb)
                    lines.append({'kind': 'route', 'route': route, 'method': method, 'vkind': vkind, 'shape': shape,
                                  'v': v, 'status': st, 'hver': _ver_of(h),
                                  'vary': 'openstack-api-version' in h.get('vary', '').lower(),
                                  'cache': 'last-modified' in h and h.get('cache-control') == 'no-cache',
                                  'anycache': 'last-modified' in h or 'cache-control' in h})
    app.restore('surf')
    return lines


def header_lines(app):
    """Responses of every kind - refused by the routing layer, by the policy,
    by the handler, by the object layer, and successes - must carry the
    version applied and a Vary header naming it (C14, last sentence)."""
    lines = []
    missing = U('p11')
    probes = []
    for route in ROUTES:
        if '{uuid}' in route or '{consumer_uuid}' in route or '{name}' in route:
            p = concrete(route).replace(U('p1'), missing).replace(U('c1'), U('c7'))
            p = p.replace('CUSTOM_T2', 'CUSTOM_T4').replace('CUSTOM_RC2', 'CUSTOM_RC4')
            probes.append(('missing-entity', 'GET', p, 'admin+service', None, True))
            probes.append(('missing-entity', 'DELETE', p, 'admin+service', None, True))
        probes.append(('denied', 'GET', concrete(route), 'noroles', None, True))
        probes.append(('denied', 'DELETE', concrete(route, 'DELETE'), 'reader_own', None, True))
        probes.append(('bad-json', 'PUT', concrete(route, 'PUT'), 'admin+service', b'{"foo": ', True))
        probes.append(('bad-json', 'POST', concrete(route, 'POST'), 'admin+service', b'{"foo": ', True))
        probes.append(('no-content-type', 'PUT', concrete(route, 'PUT'), 'admin+service', b'{}', False))
        probes.append(('wrong-media-type', 'POST', concrete(route, 'POST'), 'admin+service', b'{}', 'text/plain'))
        probes.append(('success-or-handler-error', 'GET', concrete(route), 'admin+service', None, True))
    # successful reads of empty collections (a provider and a consumer with nothing, filters matching nothing)
    for path in ('/allocations/' + U('c7'), '/resource_providers/' + U('p4') + '/allocations',
                 '/resource_providers/' + U('p4') + '/inventories', '/resource_providers/' + U('p4') + '/traits',
                 '/resource_providers/' + U('p4') + '/aggregates', '/resource_providers/' + U('p4') + '/usages',
                 '/resource_providers?name=nosuchname', '/usages?project_id=nosuchproject',
                 '/traits?name=startswith:CUSTOM_NOSUCH', '/allocation_candidates?resources=VCPU:100000'):
        probes.append(('empty-result', 'GET', path, 'admin+service', None, True))
    probes.append(('unknown-route', 'GET', '/nonexistent', 'admin+service', None, True))
    probes.append(('conflict', 'POST', '/resource_providers', 'admin+service',
                   json.dumps({'name': 'p1', 'uuid': U('p9')}).encode(), True))
    for kind, method, path, caller, body, ctype in probes:
        for vkind, v, hv in (('num', 0, '1.0'), ('num', 14, '1.14'), ('num', 22, '1.22'), ('num', 39, '1.39'),
                             ('latest', 39, 'latest'), ('none', 0, None)):
            app.restore('surf')
            h = hdr(hv, caller, body is not None and ctype is True)
            if isinstance(ctype, str):
                h['content-type'] = ctype
            st, rh, rb = app.call(method, path, h, body)
            lines.append({'kind': 'hdr', 'probe': kind, 'method': method, 'route': path, 'vkind': vkind, 'v': v,
                          'status': st, 'hver': _ver_of(rh),
                          'vary': 'openstack-api-version' in rh.get('vary', '').lower(),
                          'cache': 'last-modified' in rh and rh.get('cache-control') == 'no-cache',
                          'anycache': 'last-modified' in rh or 'cache-control' in rh})
    app.restore('surf')
    return lines


# ---------------------------------------------------------------------------
# versioned features

def _alloc_body(v, allocs=None, project=True, cgen=True, ctype=True, mappings=False, form=None):
    allocs = allocs if allocs is not None else {U('p1'): {'resources': {'VCPU': 1}}}
    form = form or ('dict' if v >= 12 else 'list')
    if form == 'list':
        b = {'allocations': [{'resource_provider': {'uuid': u}, 'resources': d['resources']}
                             for u, d in allocs.items()]}
    else:
        b = {'allocations': allocs}
    if v >= 8 and project:
        b['project_id'] = 'proj1'
        b['user_id'] = 'user1'
    if v >= 28 and cgen:
        b['consumer_generation'] = None
    if v >= 38 and ctype:
        b['consumer_type'] = 'INSTANCE'
    if mappings:
        b['mappings'] = {'': [U('p1')]}
    return b


def feature_probes(app):
    """id -> function(v) -> bool (feature present at version v)."""
    A = 'admin+service'

    def call(method, path, v, body=None):
        st, h, b = app.call(method, path, hdr('1.%d' % v, A, body is not None),
                            json.dumps(body).encode() if body is not None else None)
        try:
            j = json.loads(b) if b else None
        except Exception:
            j = None
        return st, h, j

    def ok(method, path, body=None):
        return lambda v: call(method, path, v, body)[0] == 200
    rp1 = '/resource_providers/' + U('p1')
    rp2 = '/resource_providers/' + U('p2')
    agg1 = U('agg1')
    ac = '/allocation_candidates?resources=VCPU:1'
    c2 = '/allocations/' + U('c2')
    c1 = '/allocations/' + U('c1')

    def put_alloc(v, **kw):
        return call('PUT', c2, v, _alloc_body(v, **kw))[0]

    def summaries(v):
        st, h, j = call('GET', ac, v)
        return (j or {}).get('provider_summaries', {})

    def first_areq(v):
        st, h, j = call('GET', ac, v)
        ars = (j or {}).get('allocation_requests') or [{}]
        return ars[0]
    def entry_body(v, cgen=True, ctype=True, mappings=False, p='p1'):
        b = {'allocations': {U(p): {'resources': {'VCPU': 1}}}, 'project_id': 'proj1', 'user_id': 'user1'}
        if v >= 28 and cgen:
            b['consumer_generation'] = None
        if v >= 38 and ctype:
            b['consumer_type'] = 'INSTANCE'
        if mappings:
            b['mappings'] = {'': [U(p)]}
        return b

    def post_alloc(v, **kw):
        return call('POST', '/allocations', v, {U('c2'): entry_body(v, **kw)})[0]

    def reshape(v, **kw):
        b = {'inventories': {U('p2'): {'resource_provider_generation': _gen(app, 'p2'),
                                       'inventories': {'VCPU': {'total': 4}}}},
             'allocations': {U('c2'): entry_body(max(v, 28), p='p2', **kw)}}
        if v < 38:
            b['allocations'][U('c2')].pop('consumer_type', None)
        return call('POST', '/reshaper', v, b)[0]

    def forced_put(v, **fields):
        b = _alloc_body(v)
        b.update(fields)
        return call('PUT', c2, v, b)[0]

    def forced_post(v, **fields):
        b = entry_body(v)
        b.update(fields)
        return call('POST', '/allocations', v, {U('c2'): b})[0]

    def has_code(resp, status):
        st, h, j = resp
        if st != status:
            raise AssertionError('probe answered %s, not %s' % (st, status))
        return 'code' in ((j or {}).get('errors') or [{}])[0]

    def provider_inuse(v):
        st = call('PUT', c2, 39, _alloc_body(39, allocs={U('p2'): {'resources': {'VCPU': 1}}}))[0]
        assert st == 204, st
        return has_code(call('DELETE', rp2, v), 409)
    P = {
        'rp_list_member_of': ok('GET', '/resource_providers?member_of=' + agg1),
        'rp_list_resources': ok('GET', '/resource_providers?resources=VCPU:1'),
        'put_class_without_body': lambda v: app.call('PUT', '/resource_classes/CUSTOM_RC3', hdr('1.%d' % v, A))[0] in (201, 204),
        'put_class_rename': lambda v: call('PUT', '/resource_classes/CUSTOM_RC2', v, {'name': 'CUSTOM_RC4'})[0] == 200,
        'alloc_put_project_user_required': lambda v: put_alloc(v, project=False) == 400 and put_alloc(v) == 204,
        'rp_link_allocations': lambda v: 'allocations' in [l['rel'] for l in (call('GET', rp1, v)[2] or {}).get('links', [])],
        'alloc_put_dict_form': lambda v: put_alloc(v, form='dict') == 204,
        'alloc_put_list_form': lambda v: put_alloc(v, form='list') == 204,
        'alloc_get_project_user': lambda v: 'project_id' in (call('GET', c1, v)[2] or {}),
        'rp_parent_root_keys': lambda v: 'parent_provider_uuid' in (call('GET', rp1, v)[2] or {}),
        'rp_post_parent': lambda v: call('POST', '/resource_providers', v,
                                         {'name': 'p9', 'uuid': U('p9'), 'parent_provider_uuid': U('p1')})[0] in (200, 201),
        'rp_list_in_tree': ok('GET', '/resource_providers?in_tree=' + U('p1')),
        'cache_headers_get': lambda v: (lambda h: 'last-modified' in h and 'cache-control' in h)(call('GET', rp1, v)[1]),
        'ac_limit': ok('GET', ac + '&limit=1'),
        'ac_required': ok('GET', ac + '&required=HW_CPU_X86_AVX'),
        'ac_summary_traits': lambda v: any('traits' in d for d in summaries(v).values()),
        'rp_list_required': ok('GET', '/resource_providers?required=HW_CPU_X86_AVX'),
        'agg_put_object_form': lambda v: call('PUT', rp1 + '/aggregates', v,
                                              {'aggregates': [agg1], 'resource_provider_generation': _gen(app, 'p1')})[0] == 200,
        'agg_put_list_form': lambda v: call('PUT', rp1 + '/aggregates', v, [agg1])[0] == 200,
        'agg_get_generation': lambda v: 'resource_provider_generation' in (call('GET', rp1 + '/aggregates', v)[2] or {}),
        'rp_post_returns_body': lambda v: call('POST', '/resource_providers', v, {'name': 'p9', 'uuid': U('p9')})[0] == 200,
        'ac_member_of': ok('GET', ac + '&member_of=' + agg1),
        'ac_forbidden_trait': ok('GET', ac + '&required=!CUSTOM_T2'),
        'rp_list_forbidden_trait': ok('GET', '/resource_providers?required=!CUSTOM_T2'),
        'error_code': lambda v: 'code' in ((call('GET', '/resource_providers/' + U('p11'), v)[2] or {}).get('errors') or [{}])[0],
        # errors that carry a code of their own (not the default one), each refused at every version
        'error_code_concurrent_update': lambda v: has_code(call('PUT', rp1 + '/inventories/VCPU', v, dict(
            INV_JSON(8, 0), resource_provider_generation=_gen(app, 'p1') + 7)), 409),
        'error_code_duplicate_name': lambda v: has_code(call('POST', '/resource_providers', v, {'name': 'p1', 'uuid': U('p9')}), 409),
        'error_code_duplicate_name_on_update': lambda v: has_code(call('PUT', '/resource_providers/' + U('p4'), v, {'name': 'p1'}), 409),
        'error_code_inventory_inuse': lambda v: has_code(call('DELETE', rp1 + '/inventories/VCPU', v), 409),
        'error_code_cannot_delete_parent': lambda v: has_code(call('DELETE', rp1, v), 409),
        'error_code_provider_inuse': lambda v: provider_inuse(v),
        'alloc_post_consumer_generation_required': lambda v: post_alloc(v, cgen=False) == 400 and post_alloc(v) == 204,
        'alloc_post_consumer_type_required': lambda v: post_alloc(v, ctype=False) == 400 and post_alloc(v) == 204,
        'alloc_post_mappings': lambda v: post_alloc(v, mappings=True) == 204,
        'reshape_consumer_type_required': lambda v: reshape(v, ctype=False) == 400 and reshape(v) == 204,
        'reshape_mappings': lambda v: reshape(v, mappings=True) == 204,
        'usages_grouped_by_type': lambda v: any(isinstance(d, dict) and 'consumer_count' in d for d in
                                                (call('GET', '/usages?project_id=proj1', v)[2] or {}).get('usages', {}).values()),
        'cache_headers_write_with_body': lambda v: (lambda r: r[0] == 200 and 'last-modified' in r[1] and r[1].get('cache-control') == 'no-cache')(
            call('PUT', rp2 + '/inventories/VCPU', v, dict(INV_JSON(4, 0), resource_provider_generation=_gen(app, 'p2')))),
        'cache_headers_absent_on_write_with_body': lambda v: (lambda r: r[0] == 200 and 'last-modified' not in r[1] and 'cache-control' not in r[1])(
            call('PUT', rp2 + '/inventories/VCPU', v, dict(INV_JSON(4, 0), resource_provider_generation=_gen(app, 'p2')))),
        'ac_group_policy': ok('GET', ac + '&group_policy=none'),
        # request fields are accepted from the version that documents them and refused (400) below it
        'alloc_put_project_user_accepted': lambda v: forced_put(v, project_id='proj1', user_id='user1') == 204,
        'alloc_put_consumer_generation_accepted': lambda v: forced_put(v, consumer_generation=None) == 204,
        'alloc_put_consumer_type_accepted': lambda v: forced_put(v, consumer_type='INSTANCE') == 204,
        'alloc_post_consumer_generation_accepted': lambda v: forced_post(v, consumer_generation=None) == 204,
        'alloc_post_consumer_type_accepted': lambda v: forced_post(v, consumer_type='INSTANCE') == 204,
        'rp_put_parent_accepted': lambda v: call('PUT', '/resource_providers/' + U('p4'), v,
                                                 {'name': 'p4', 'parent_provider_uuid': U('p1')})[0] == 200,
        # a request group without resources exists from 1.36 and only together with same_subtree:
        # every other spelling of one is refused at every version that knows the route
        'ac_resourceless_group': ok('GET', '/allocation_candidates?resources1=VCPU:1&required2=HW_CPU_X86_AVX'
                                           '&same_subtree=1,2&group_policy=none'),
        'ac_orphan_required_refused': lambda v: call('GET', ac + '&required1=HW_CPU_X86_AVX', v)[0] == 400,
        'ac_orphan_forbidden_refused': lambda v: call('GET', ac + '&required1=!CUSTOM_T2', v)[0] == 400,
        'ac_orphan_member_of_refused': lambda v: call('GET', ac + '&member_of1=' + agg1, v)[0] == 400,
        'ac_orphan_forbidden_agg_refused': lambda v: call('GET', ac + '&member_of1=!' + agg1, v)[0] == 400,
        'ac_orphan_in_tree_refused': lambda v: call('GET', ac + '&in_tree1=' + U('p1'), v)[0] == 400,
        'rp_list_repeated_member_of': ok('GET', '/resource_providers?member_of=%s&member_of=%s' % (agg1, agg1)),
        'ac_granular': ok('GET', '/allocation_candidates?resources1=VCPU:1'),
        'inv_reserved_equals_total': lambda v: call('PUT', rp2 + '/inventories/VCPU', v,
                                                    dict(INV_JSON(4, 4), resource_provider_generation=_gen(app, 'p2')))[0] == 200,
        'ac_summary_all_classes': lambda v: 'DISK_GB' in (summaries(v).get(U('p1')) or {}).get('resources', {}),
        'alloc_put_consumer_generation_required': lambda v: put_alloc(v, cgen=False) == 400 and put_alloc(v) == 204,
        'alloc_put_empty': lambda v: call('PUT', c1, v, dict(_alloc_body(v, allocs={}, form='dict'),
                                                             consumer_generation=1))[0] == 204,
        'alloc_get_consumer_generation': lambda v: 'consumer_generation' in (call('GET', c1, v)[2] or {}),
        'rp_allocs_consumer_generation': lambda v: any('consumer_generation' in d for d in
                                                       (call('GET', rp1 + '/allocations', v)[2] or {}).get('allocations', {}).values()),
        'ac_summary_parent_root': lambda v: any('root_provider_uuid' in d for d in summaries(v).values()),
        'ac_in_tree': ok('GET', ac + '&in_tree=' + U('p1')),
        'ac_forbidden_agg': ok('GET', ac + '&member_of=!' + U('agg2')),
        'rp_list_forbidden_agg': ok('GET', '/resource_providers?member_of=!' + U('agg2')),
        'ac_string_suffix': ok('GET', '/allocation_candidates?resources_A=VCPU:1'),
        'ac_mappings': lambda v: 'mappings' in first_areq(v),
        'alloc_put_mappings': lambda v: put_alloc(v, mappings=True) == 204,
        'ac_root_required': ok('GET', ac + '&root_required=HW_CPU_X86_AVX'),
        'ac_same_subtree': ok('GET', '/allocation_candidates?resources1=VCPU:1&resources2=VCPU:1&same_subtree=1,2&group_policy=none'),
        'rp_reparent': lambda v: call('PUT', rp2, v, {'name': 'p2', 'parent_provider_uuid': None})[0] == 200,
        'rp_reparent_same_tree': lambda v: call('PUT', '/resource_providers/' + U('p3'), v, {'name': 'p3', 'parent_provider_uuid': U('p2')})[0] == 200,
        'rp_reparent_other_tree': lambda v: call('PUT', '/resource_providers/' + U('p3'), v, {'name': 'p3', 'parent_provider_uuid': U('p4')})[0] == 200,
        'alloc_put_consumer_type_required': lambda v: put_alloc(v, ctype=False) == 400 and put_alloc(v) == 204,
        'alloc_get_consumer_type': lambda v: 'consumer_type' in (call('GET', c1, v)[2] or {}),
        'usages_consumer_type': ok('GET', '/usages?project_id=proj1&consumer_type=INSTANCE'),
        'ac_required_in': ok('GET', ac + '&required=in:HW_CPU_X86_AVX,CUSTOM_T2'),
        'rp_list_required_in': ok('GET', '/resource_providers?required=in:HW_CPU_X86_AVX,CUSTOM_T2'),
    }
    return P


def INV_JSON(total, reserved):
    return {'total': total, 'reserved': reserved, 'min_unit': 1, 'max_unit': total,
            'step_size': 1, 'allocation_ratio': 1.0}


def _gen(app, name):
    st, _ = project.dump(app.engine)
    return st['rp'][name]['gen']


def feature_lines(app):
    P = feature_probes(app)
    lines = []
    for fid in sorted(P):
        for v in range(40):
            app.restore('surf')
            try:
                present = bool(P[fid](v))
            except Exception as ex:
                present = False
            lines.append({'kind': 'feature', 'fid': fid, 'v': v, 'present': present})
    app.restore('surf')
    return lines


# ---------------------------------------------------------------------------
# policy

CALLERS = ['none', 'noroles', 'reader_own', 'reader_other', 'member', 'admin', 'service', 'noroles_svchdr', 'reader_svchdr']


def _policy_body(route, method):
    if method not in ('PUT', 'POST'):
        return None
    return b'{}'


def set_override(app, rule, kind):
    from placement import policy as ppolicy
    from oslo_policy import policy as opolicy
    ppolicy.reset()
    ppolicy.init(app.conf)
    if rule:
        ppolicy._ENFORCER.set_rules(opolicy.Rules.from_dict({rule: kind}),
                                    overwrite=False, use_conf=False)


def policy_lines(app, db0, rnd, tier, rules, with_default=True):
    secrets = [U('p1'), U('p2'), U('c1'), U('agg1'), 'proj1', 'user1']
    lines = []
    plans = [('', '')] if with_default else []
    for r in rules:
        plans.append((r, '@'))
        plans.append((r, '!'))
    rule_of = {}
    for (route, method) in OPS:
        rule_of[(route, method)] = None
    for (ovrule, ovkind) in plans:
        set_override(app, ovrule, ovkind)
        try:
            if ovrule == '' or tier == 'thorough':
                ops = list(OPS)
            else:
                mine = [o for o in OPS if RULE_OF[o] == ovrule]
                others = [o for o in OPS if RULE_OF[o] != ovrule]
                ops = mine + rnd.sample(others, 3)
            # under the default policy every band of versions with a handler variant of its own
            versions = ['1.39', '1.0', '1.6', '1.12', '1.27', '1.33', '1.37'] if ovrule == '' else ['1.39']
            for (route, method) in ops:
                body = _policy_body(route, method)
                for ver in versions:
                    app.restore('surf')
                    ast, ah, ab = app.call(method, concrete(route, method), hdr(ver, 'admin+service', body is not None), body)
                    for caller in CALLERS:
                        app.restore('surf')
                        st, h, b = app.call(method, concrete(route, method), hdr(ver, caller, body is not None), body)
                        post, _ = project.dump(app.engine)
                        text = b.decode('utf-8', 'replace')
                        lines.append({'kind': 'policy', 'route': route, 'method': method, 'caller': caller,
                                      'ovrule': ovrule, 'ovkind': ovkind, 'status': st, 'admin_status': ast,
                                      'changed': post != db0, 'version': ver,
                                      'leaked': st >= 400 and any(x in text for x in secrets)})
        finally:
            pass
    set_override(app, '', '')
    app.restore('surf')
    lines.extend(scope_lines(app))
    return lines


OWN_USAGES = {'VCPU': 1, 'DISK_GB': 5}       # proj1, see base_state
OTHER_USAGES = {'VCPU': 2}                   # proj2


def scope_lines(app):
    """GET /usages names the project in the query: every way of naming one or
    two projects (own / another), by each kind of caller, with and without a
    user_id, at the versions that differ (1.9, 1.38 with consumer_type)."""
    import itertools
    lines = []
    pid = {'own': 'proj1', 'other': 'proj2'}
    for caller in ('noroles', 'reader_own', 'member', 'admin', 'service'):
        for n in (1, 2, 3):
            for projs in itertools.product(('own', 'other'), repeat=n):
                for extra in ('', '&user_id=user1', '&user_id=user2', '&consumer_type=INSTANCE'):
                    v = '1.38' if 'consumer_type' in extra else '1.9'
                    q = '&'.join('project_id=' + pid[p] for p in projs) + extra
                    st, h, b = app.call('GET', '/usages?' + q, hdr(v, caller))
                    data = 'none'
                    if st == 200:
                        try:
                            u = json.loads(b).get('usages', {})
                        except Exception:
                            u = None
                        if isinstance(u, dict) and 'INSTANCE' in u:       # 1.38: keyed by consumer type
                            u = {k: x for k, x in u['INSTANCE'].items() if k != 'consumer_count'}
                        if not u:
                            data = 'none'
                        elif all(u.get(k) in (None, OWN_USAGES[k]) for k in u) and set(u) <= set(OWN_USAGES) and u != OTHER_USAGES:
                            data = 'own'
                        elif u == OTHER_USAGES:
                            data = 'other'
                        else:
                            data = 'mixed'
                    lines.append({'kind': 'scope', 'caller': caller, 'projs': list(projs), 'status': st,
                                  'data': data, 'query': q})
    return lines


RULE_OF = {
    ('/', 'GET'): 'none',
    ('/resource_classes', 'GET'): 'placement:resource_classes:list',
    ('/resource_classes', 'POST'): 'placement:resource_classes:create',
    ('/resource_classes/{name}', 'GET'): 'placement:resource_classes:show',
    ('/resource_classes/{name}', 'PUT'): 'placement:resource_classes:update',
    ('/resource_classes/{name}', 'DELETE'): 'placement:resource_classes:delete',
    ('/resource_providers', 'GET'): 'placement:resource_providers:list',
    ('/resource_providers', 'POST'): 'placement:resource_providers:create',
    ('/resource_providers/{uuid}', 'GET'): 'placement:resource_providers:show',
    ('/resource_providers/{uuid}', 'PUT'): 'placement:resource_providers:update',
    ('/resource_providers/{uuid}', 'DELETE'): 'placement:resource_providers:delete',
    ('/resource_providers/{uuid}/inventories', 'GET'): 'placement:resource_providers:inventories:list',
    ('/resource_providers/{uuid}/inventories', 'POST'): 'placement:resource_providers:inventories:create',
    ('/resource_providers/{uuid}/inventories', 'PUT'): 'placement:resource_providers:inventories:update',
    ('/resource_providers/{uuid}/inventories', 'DELETE'): 'placement:resource_providers:inventories:delete',
    ('/resource_providers/{uuid}/inventories/{resource_class}', 'GET'): 'placement:resource_providers:inventories:show',
    ('/resource_providers/{uuid}/inventories/{resource_class}', 'PUT'): 'placement:resource_providers:inventories:update',
    ('/resource_providers/{uuid}/inventories/{resource_class}', 'DELETE'): 'placement:resource_providers:inventories:delete',
    ('/resource_providers/{uuid}/usages', 'GET'): 'placement:resource_providers:usages',
    ('/resource_providers/{uuid}/aggregates', 'GET'): 'placement:resource_providers:aggregates:list',
    ('/resource_providers/{uuid}/aggregates', 'PUT'): 'placement:resource_providers:aggregates:update',
    ('/resource_providers/{uuid}/allocations', 'GET'): 'placement:resource_providers:allocations:list',
    ('/resource_providers/{uuid}/traits', 'GET'): 'placement:resource_providers:traits:list',
    ('/resource_providers/{uuid}/traits', 'PUT'): 'placement:resource_providers:traits:update',
    ('/resource_providers/{uuid}/traits', 'DELETE'): 'placement:resource_providers:traits:delete',
    ('/allocations', 'POST'): 'placement:allocations:manage',
    ('/allocations/{consumer_uuid}', 'GET'): 'placement:allocations:list',
    ('/allocations/{consumer_uuid}', 'PUT'): 'placement:allocations:update',
    ('/allocations/{consumer_uuid}', 'DELETE'): 'placement:allocations:delete',
    ('/allocation_candidates', 'GET'): 'placement:allocation_candidates:list',
    ('/traits', 'GET'): 'placement:traits:list',
    ('/traits/{name}', 'GET'): 'placement:traits:show',
    ('/traits/{name}', 'PUT'): 'placement:traits:update',
    ('/traits/{name}', 'DELETE'): 'placement:traits:delete',
    ('/usages', 'GET'): 'placement:usages',
    ('/reshaper', 'POST'): 'placement:reshaper:reshape',
}


def validate(lines, timeout=3600):
    d = tempfile.mkdtemp(prefix='pv-surf-')
    try:
        path = os.path.join(d, 'surface.ndjson')
        with open(path, 'w') as f:
            for n, ln in enumerate(lines):
                ln['id'] = n + 1
                f.write(json.dumps(ln, sort_keys=True))
                f.write('\n')
        rc, out, wall = tlc.run('TraceSurface', 'TraceSurface.cfg', env={'TRACE_FILE': path},
                                workers=1, timeout=timeout, metadir=os.path.join(d, 'm'))
        verdicts = {}
        for v in tlc.printed_values(out, 'UV'):
            verdicts[v[1]] = sorted(v[2])
        if len(verdicts) != len(lines) or 'Error:' in out:
            raise tlc.TLCError('TraceSurface judged %d of %d lines (rc %s)\n%s'
                               % (len(verdicts), len(lines), rc, out[-3000:]))
        return verdicts, wall
    finally:
        shutil.rmtree(d, ignore_errors=True)


def worker(job):
    from pv.app import get_app
    app = get_app()
    db0 = base_state(app)
    rnd = random.Random(job['seed'])
    if job['part'] == 'routes':
        lines = route_lines(app)
    elif job['part'] == 'headers':
        lines = header_lines(app)
    elif job['part'] == 'features':
        lines = feature_lines(app)
    else:
        lines = policy_lines(app, db0, rnd, job['tier'], job['rules'], job.get('with_default', True))
    verdicts, wall = validate(lines)
    bad = []
    for ln in lines:
        v = verdicts[ln['id']]
        if v:
            d = dict(ln)
            d['monitors'] = v
            bad.append(d)
    return {'n': len(lines), 'bad': bad, 'part': job['part'],
            'sample': [{k: v for k, v in lines[0].items() if k != 'id'}] if lines else []}
