"""./check <Cnn> --tier quick|thorough [--seed N] [--replay FILE]

exit 0  the property held on everything explored
exit 1  VIOLATION property=<id> replay=<path>   (printed on stdout)
exit 2  the machinery itself failed (TLC error, zero traces, ...)
"""
import argparse
import json
import os
import sys
import time
import traceback

ROOT = os.path.dirname(os.path.dirname(os.path.abspath(__file__)))
sys.path.insert(0, ROOT)
os.environ.setdefault('PYTHONHASHSEED', '0')


def main(argv=None):
    ap = argparse.ArgumentParser()
    ap.add_argument('prop')
    ap.add_argument('--tier', default=os.environ.get('VERIF_TIER', 'quick'),
                    choices=['quick', 'thorough'])
    ap.add_argument('--seed', type=int,
                    default=int(os.environ.get('VERIF_SEED', '1') or 1))
    ap.add_argument('--replay')
    ap.add_argument('--no-model', action='store_true',
                    help='skip the TLC model run (development aid)')
    args = ap.parse_args(argv)
    # every scratch file of this run (SQLite databases of the worker processes, TLC metadirs,
    # trace files) lives under one directory that is removed at the end: worker processes of a
    # pool are terminated, not exited, so they cannot be relied on to clean up themselves
    import shutil
    import tempfile
    scratch = tempfile.mkdtemp(prefix='pv-run-')
    os.environ['TMPDIR'] = scratch
    tempfile.tempdir = scratch
    from pv import checks
    try:
        if args.replay:
            return checks.replay(args.prop, args.replay)
        return checks.run_check(args.prop, args.tier, args.seed,
                                model=not args.no_model)
    except checks.Machinery as ex:
        print('MACHINERY-FAILURE property=%s %s' % (args.prop, ex))
        return 2
    except Exception:
        traceback.print_exc()
        print('MACHINERY-FAILURE property=%s unexpected exception' % args.prop)
        return 2
    finally:
        shutil.rmtree(scratch, ignore_errors=True)


if __name__ == '__main__':
    sys.exit(main())
