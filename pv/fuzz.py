"""C15: grammar-based mutation of valid requests to every route; each exchange
is judged by TLC (spec/TraceFuzz.tla)."""
import copy
import json
import os
import random
import re
import shutil
import tempfile

from pv import names
from pv import project
from pv import tlc
from pv.surface import INV_JSON

U = names.to_uuid
BIG = [0, -1, 1, 2 ** 31 - 1, 2 ** 31, 2 ** 32, 2 ** 63 - 1, -2 ** 63, -2 ** 31]
STRS = ['', ' ', 'a' * 300, 'a' * 5000, '\u0000', 'x\u0000y', '\n', 'CUSTOM_A\n', '\t', '‮', '\U0001F600',
        '%ff', '../..', 'null', 'NaN', "'; DROP TABLE allocations; --", '\ud800', 'é' * 10, '0', '-1',
        '²', '①', '٣', '３', '1²', 'Ⅳ', '½', '​', 'İ', 'ß', 'ǅ',
        '{}', '[]', 'CUSTOM_', 'custom_lower', 'VCPU', 'MISC_SHARES_VIA_AGGREGATE', 'in:', '!', ',', ':', '\\']


def base_state(app, nested_sharing):
    import random as _r
    from pv import trace, scenarios
    rec = trace.Recorder(app)
    rec.new_history()
    s = scenarios.S(rec, _r.Random(0))
    s.mk('p1')
    s.mk('p2', 'p1')
    s.mk('p3')
    s.do(op='rc_post', v=39, name='CUSTOM_RC1')
    s.do(op='rc_post', v=39, name='CUSTOM_RC2')
    s.do(op='trait_put', v=39, name='CUSTOM_T1')
    s.do(op='trait_put', v=39, name='CUSTOM_T2')
    s.invs('p1', VCPU=8, DISK_GB=100, MEMORY_MB=1024, CUSTOM_RC1=4)
    s.invs('p2', VCPU=4, DISK_GB=20)
    s.invs('p3', DISK_GB=500)
    s.do(op='rp_traits_put', v=39, u='p1', gen=s.gen('p1'), traits=['CUSTOM_T1', 'HW_CPU_X86_AVX'])
    s.do(op='rp_traits_put', v=39, u='p3', gen=s.gen('p3'), traits=['MISC_SHARES_VIA_AGGREGATE'])
    s.do(op='agg_put', v=39, u='p1', gen=s.gen('p1'), aggs=['agg1'])
    s.do(op='agg_put', v=39, u='p3', gen=s.gen('p3'), aggs=['agg1'])
    if nested_sharing:
        # an exotic but legal topology: the sharing provider is itself nested
        s.mk('p4', 'p3')
        s.invs('p4', DISK_GB=50, VCPU=2)
        s.do(op='rp_traits_put', v=39, u='p4', gen=s.gen('p4'), traits=['MISC_SHARES_VIA_AGGREGATE'])
        s.do(op='agg_put', v=39, u='p4', gen=s.gen('p4'), aggs=['agg1', 'agg2'])
    s.put('c1', {'p1': {'VCPU': 1, 'DISK_GB': 5}})
    app.snapshot('fuzz')
    st = rec.state()[0]
    return st


def seeds(st):
    """Valid requests to every route: (method, path, query list, body or None)."""
    g = lambda p: st['rp'][p]['gen']
    rp = '/resource_providers'
    p1, p2, p3 = U('p1'), U('p2'), U('p3')
    alloc = {'allocations': {p1: {'resources': {'VCPU': 1}}, p2: {'resources': {'DISK_GB': 2}}},
             'project_id': 'proj1', 'user_id': 'user1', 'consumer_generation': None,
             'consumer_type': 'INSTANCE'}
    return [
        ('GET', '/', [], None),
        ('GET', rp, [], None),
        ('GET', rp, [('name', 'p1'), ('member_of', U('agg1')), ('required', 'HW_CPU_X86_AVX,!CUSTOM_T2'),
                     ('resources', 'VCPU:1,DISK_GB:2'), ('in_tree', p1)], None),
        ('GET', rp, [('uuid', p1), ('member_of', 'in:%s,%s' % (U('agg1'), U('agg2'))), ('member_of', '!' + U('agg3')),
                     ('required', 'in:HW_CPU_X86_AVX,CUSTOM_T1')], None),
        ('POST', rp, [], {'name': 'p9', 'uuid': U('p9'), 'parent_provider_uuid': p1}),
        ('GET', '%s/%s' % (rp, p1), [], None),
        ('PUT', '%s/%s' % (rp, p2), [], {'name': 'p2x', 'parent_provider_uuid': p3}),
        ('DELETE', '%s/%s' % (rp, p2), [], None),
        ('GET', '%s/%s/inventories' % (rp, p1), [], None),
        ('POST', '%s/%s/inventories' % (rp, p2), [], dict(INV_JSON(8, 0), resource_class='MEMORY_MB')),
        ('PUT', '%s/%s/inventories' % (rp, p2), [],
         {'resource_provider_generation': g('p2'),
          'inventories': {'VCPU': INV_JSON(4, 0), 'DISK_GB': INV_JSON(10, 1), 'CUSTOM_RC1': INV_JSON(2, 0)}}),
        ('DELETE', '%s/%s/inventories' % (rp, p2), [], None),
        ('GET', '%s/%s/inventories/VCPU' % (rp, p1), [], None),
        ('PUT', '%s/%s/inventories/VCPU' % (rp, p2), [], dict(INV_JSON(6, 0), resource_provider_generation=g('p2'))),
        ('DELETE', '%s/%s/inventories/DISK_GB' % (rp, p2), [], None),
        ('GET', '%s/%s/usages' % (rp, p1), [], None),
        ('GET', '%s/%s/aggregates' % (rp, p1), [], None),
        ('PUT', '%s/%s/aggregates' % (rp, p2), [], {'aggregates': [U('agg1'), U('agg2')], 'resource_provider_generation': g('p2')}),
        ('GET', '%s/%s/allocations' % (rp, p1), [], None),
        ('GET', '%s/%s/traits' % (rp, p1), [], None),
        ('PUT', '%s/%s/traits' % (rp, p2), [], {'traits': ['CUSTOM_T1', 'STORAGE_DISK_SSD'], 'resource_provider_generation': g('p2')}),
        ('DELETE', '%s/%s/traits' % (rp, p1), [], None),
        ('POST', '/allocations', [], {U('c2'): dict(alloc), U('c1'): dict(alloc, consumer_generation=1, allocations={})}),
        ('GET', '/allocations/' + U('c1'), [], None),
        ('PUT', '/allocations/' + U('c2'), [], dict(alloc, mappings={'': [p1], '_G': [p2]})),
        ('DELETE', '/allocations/' + U('c1'), [], None),
        ('GET', '/allocation_candidates', [('resources', 'VCPU:1,DISK_GB:5'), ('required', 'HW_CPU_X86_AVX'),
                                           ('member_of', U('agg1')), ('limit', '5')], None),
        ('GET', '/allocation_candidates', [('resources', 'VCPU:1'), ('resources_A', 'DISK_GB:5'), ('required_A', '!CUSTOM_T2'),
                                           ('member_of_A', 'in:%s,%s' % (U('agg1'), U('agg2'))), ('in_tree_A', p3),
                                           ('resources_B', 'DISK_GB:1'), ('group_policy', 'isolate'),
                                           ('root_required', 'HW_CPU_X86_AVX,!CUSTOM_T2'), ('same_subtree', '_A,_B')], None),
        ('GET', '/traits', [('name', 'startswith:CUSTOM_'), ('associated', 'true')], None),
        ('GET', '/traits/CUSTOM_T1', [], None),
        ('PUT', '/traits/CUSTOM_T9', [], None),
        ('DELETE', '/traits/CUSTOM_T2', [], None),
        ('GET', '/resource_classes', [], None),
        ('POST', '/resource_classes', [], {'name': 'CUSTOM_RC9'}),
        ('GET', '/resource_classes/VCPU', [], None),
        ('PUT', '/resource_classes/CUSTOM_RC9', [], None),
        ('DELETE', '/resource_classes/CUSTOM_RC2', [], None),
        ('GET', '/usages', [('project_id', 'proj1'), ('user_id', 'user1'), ('consumer_type', 'INSTANCE')], None),
        ('POST', '/reshaper', [], {
            'inventories': {p2: {'resource_provider_generation': g('p2'),
                                 'inventories': {'VCPU': INV_JSON(4, 0), 'DISK_GB': INV_JSON(30, 0)}}},
            'allocations': {U('c1'): dict(alloc, consumer_generation=1,
                                          allocations={p1: {'resources': {'VCPU': 1}}, p2: {'resources': {'DISK_GB': 5}}})}}),
        # the same operations for consumers that do not exist yet: a refused request must not leave them behind
        ('POST', '/reshaper', [], {
            'inventories': {p2: {'resource_provider_generation': g('p2'),
                                 'inventories': {'VCPU': INV_JSON(4, 0), 'DISK_GB': INV_JSON(30, 0)}}},
            'allocations': {U('c7'): dict(alloc, consumer_generation=None,
                                          allocations={p2: {'resources': {'DISK_GB': 5}}})}}),
        ('POST', '/allocations', [], {U('c7'): dict(alloc, consumer_generation=None,
                                                    allocations={p1: {'resources': {'VCPU': 1}}}),
                                      U('c8'): dict(alloc, consumer_generation=None,
                                                    allocations={p2: {'resources': {'DISK_GB': 1}}})}),
        ('PUT', '/allocations/' + U('c7'), [], dict(alloc, consumer_generation=None,
                                                    allocations={p1: {'resources': {'VCPU': 1}}})),
    ]


def _paths(x, pre=()):
    out = [pre]
    if isinstance(x, dict):
        for k in x:
            out += _paths(x[k], pre + (k,))
    elif isinstance(x, list):
        for i, v in enumerate(x):
            out += _paths(v, pre + (i,))
    return out


def _get(x, path):
    for k in path:
        x = x[k]
    return x


def _set(x, path, val):
    if not path:
        return val
    cur = x
    for k in path[:-1]:
        cur = cur[k]
    cur[path[-1]] = val
    return x


def _del(x, path):
    cur = x
    for k in path[:-1]:
        cur = cur[k]
    del cur[path[-1]]
    return x


def rand_value(rnd, depth=0):
    k = rnd.randrange(12)
    if k == 0:
        return None
    if k == 1:
        return rnd.choice([True, False])
    if k == 2:
        return rnd.choice(BIG)
    if k == 3:
        return rnd.choice([0.5, 1e308, -1e308, 1e-320, -0.0, 3.0, 1.1])
    if k == 4:
        return rnd.choice(STRS)
    if k == 5:
        return []
    if k == 6:
        return {}
    if k == 7 and depth < 3:
        return [rand_value(rnd, depth + 1) for _ in range(rnd.randint(1, 3))]
    if k == 8 and depth < 3:
        return {rnd.choice(STRS + ['resources', 'allocations', 'VCPU']): rand_value(rnd, depth + 1)
                for _ in range(rnd.randint(1, 3))}
    if k == 9:
        return rnd.choice([U('p1'), U('p11'), U('c1'), 'not-a-uuid', U('p1').replace('-', ''), U('p1').upper()])
    if k == 10:
        return rnd.choice(['VCPU', 'CUSTOM_RC1', 'NOSUCH', 'vcpu', 'CUSTOM_T1', 'INSTANCE', 'unknown', 'all'])
    x = []
    for _ in range(40):
        x = [x]
    return x


def mutate(rnd, seed):
    """Returns (method, path+query string, headers, raw body bytes or None, description)."""
    method, path, query, body = seed
    query = list(query)
    body = copy.deepcopy(body)
    headers = {'x-auth-token': 'admin', 'x-roles': 'admin,service', 'accept': 'application/json',
               'openstack-api-version': 'placement 1.%d' % rnd.choice([39, 39, 39, 38, 36, 28, 27, 20, 12, 10, 1, 0])}
    raw = None
    desc = []
    nmut = rnd.choice([1, 1, 1, 2, 3])
    for _ in range(nmut):
        kinds = ['hdr', 'path', 'method']
        if body is not None:
            kinds += ['body'] * 6 + ['rawbody']
        if query:
            kinds += ['query'] * 5
        else:
            kinds += ['addquery']
        k = rnd.choice(kinds)
        desc.append(k)
        if k == 'body' and isinstance(body, (dict, list)):
            ps = _paths(body)
            p = rnd.choice(ps)
            op = rnd.choice(['replace', 'replace', 'replace', 'delete', 'addkey', 'dupe_rename', 'cross', 'unknown_id',
                             'nonfinite'])
            try:
                if op == 'nonfinite':
                    # a number that JSON parsers accept and no schema bounds: NaN, Infinity
                    nums = [q for q in ps if q and isinstance(_get(body, q), (int, float)) and not isinstance(_get(body, q), bool)]
                    if nums:
                        body = _set(body, rnd.choice(nums), float(rnd.choice(['nan', 'inf', '-inf'])))
                    op = 'done'
                if op == 'unknown_id':
                    # a well-formed name of something that does not exist, as key or value
                    txt = json.dumps(body)
                    ids = sorted(set(re.findall(r'[0-9a-f]{8}-[0-9a-f]{4}-[0-9a-f]{4}-[0-9a-f]{4}-[0-9a-f]{12}', txt)))
                    words = sorted(set(re.findall(r'"((?:CUSTOM_|HW_)?[A-Z][A-Z0-9_]{2,})"', txt)))
                    if ids and (not words or rnd.random() < 0.7):
                        body = json.loads(txt.replace(rnd.choice(ids), U('p11'), 1))
                    elif words:
                        body = json.loads(txt.replace('"%s"' % rnd.choice(words), '"CUSTOM_NOSUCH"', 1))
                    op = 'done'
                if op == 'cross':
                    # an identifier of the request itself where another one is expected
                    # (a provider as its own parent, a consumer as a provider, ...)
                    ids = re.findall(r'[0-9a-f]{8}-[0-9a-f]{4}-[0-9a-f]{4}-[0-9a-f]{4}-[0-9a-f]{12}', path + ' ' + json.dumps(body))
                    uu = [q for q in ps if q and isinstance(_get(body, q), str)
                          and re.match(r'^[0-9a-f-]{36}$', _get(body, q))]
                    if ids and uu:
                        body = _set(body, rnd.choice(uu), rnd.choice(ids))
                    op = 'done'
                if op == 'done':
                    pass
                elif op == 'replace' or not p:
                    body = _set(body, p, rand_value(rnd))
                elif op == 'delete':
                    body = _del(body, p)
                elif op == 'addkey':
                    tgt = body
                    for kk in p:
                        tgt = tgt[kk]
                    if isinstance(tgt, dict):
                        tgt[rnd.choice(STRS + ['extra', 'generation', 'mappings'])] = rand_value(rnd)
                    elif isinstance(tgt, list):
                        tgt.append(rand_value(rnd))
                else:
                    cur = body
                    for kk in p[:-1]:
                        cur = cur[kk]
                    if isinstance(cur, dict):
                        cur[rnd.choice(STRS + [str(p[-1]).lower(), U('p11'), 'CUSTOM_' + 'X' * 300])] = cur.pop(p[-1])
            except Exception:
                pass
        elif k == 'rawbody':
            txt = json.dumps(body)
            raw = rnd.choice([
                txt[:rnd.randint(0, len(txt))].encode(), b'', b'{', b'nul', b'\xff\xfe', txt.encode() + b'garbage',
                txt.replace('1', 'NaN', 1).encode(), txt.replace('1', '-Infinity', 1).encode(),
                txt.replace('1', '1e400', 1).encode(), txt.replace('1', '9223372036854775807', 1).encode(),
                ('[' * 5000).encode(), txt.replace('"name"', '"name": 1, "name"').encode(),
                txt.encode('utf-16'), b'"just a string"', b'[]', b'123'])
        elif k == 'query':
            i = rnd.randrange(len(query))
            op = rnd.choice(['value', 'value', 'dup', 'drop', 'key', 'conflict', 'conflict_first'])
            key, val = query[i]
            if op == 'value' and rnd.random() < 0.35:
                # character-level damage to the valid value: look-alike digits,
                # signs, separators, case, invisible characters
                sub = {'0': ['０', '٠', '⁰'], '1': ['１', '١', '¹', '①', ' 1', '+1', '1_0', '0x1', '1e1', '1.0'],
                       '2': ['２', '²', '٢'], '5': ['５', '⑤', '٥'], ':': ['：', '::', ': ', ' :'],
                       ',': ['，', ',,', ', '], '-': ['−', '–'], 'a': ['A', 'а'], 'e': ['E', 'е']}
                cand = [j for j, ch in enumerate(val) if ch in sub]
                if cand:
                    j = rnd.choice(cand)
                    val2 = val[:j] + rnd.choice(sub[val[j]]) + val[j + 1:]
                else:
                    val2 = val + rnd.choice(['\u200b', ' ', '\t', '²'])
                query[i] = (key, val2)
            elif op == 'value':
                query[i] = (key, rnd.choice(STRS + [str(x) for x in BIG] + [val + ',', val + ':', 'in:' + val, '!' + val,
                                                                           val.replace(':', '::'), U('p11'), 'VCPU:0', 'VCPU:-1',
                                                                           'VCPU:1.5', 'VCPU:9223372036854775807', 'NOSUCH:1', 'in:', '!in:']))
            elif op == 'dup':
                query.append((key, val))
            elif op == 'conflict_first':
                # the valid value stays last: what is validated and what is used may differ
                query.insert(i, (key, rnd.choice(STRS + ['0', '-1', 'abc', 'bogus', '1.5'])))
            elif op == 'drop':
                query.pop(i)
            elif op == 'key':
                # (also the key with white space around it: patterns anchored with $ admit a trailing newline)
                query[i] = (rnd.choice([key + '1', key + '_', key + 'é', key.upper(), 'resources' + 'x' * 70, 'bogus',
                                        key + '\n', key + '\n', key + ' ', ' ' + key, key + '\t', key + '\r\n', key + '\x00']), val)
            else:
                query.append((key, rnd.choice(STRS)))
        elif k == 'addquery':
            query.append((rnd.choice(['limit', 'bogus', 'name', 'resources', 'required', 'member_of', 'in_tree', 'project_id']),
                          rnd.choice(STRS + ['1', 'VCPU:1'])))
        elif k == 'hdr':
            op = rnd.randrange(7)
            if op == 0:
                headers['accept'] = rnd.choice(['text/html', '*/*', 'application/xml', 'garbage', '', 'application/json;q=0'])
            elif op == 1:
                headers['openstack-api-version'] = rnd.choice(['placement 1.40', 'placement latest', 'placement', 'compute 2.1',
                                                               'placement 1.x', 'placement -1.0', 'placement 1.9223372036854775807', '',
                                                               'placement 1.39, placement 1.10'])
            elif op == 2:
                headers['content-type'] = rnd.choice(['text/plain', 'application/json; charset=utf-16', '', 'application/x-www-form-urlencoded'])
            elif op == 3:
                headers.pop('accept', None)
            elif op == 4:
                headers['x-extra-' + 'h' * 50] = 'v' * 2000
            elif op == 5:
                headers['content-type'] = 'application/json'
                if raw is None and body is None:
                    raw = rnd.choice([b'{}', b'', b'[1]'])
            else:
                headers['no-content-type'] = '1'
        elif k == 'path':
            op = rnd.randrange(6)
            if op == 0:
                path = path + '/'
            elif op == 1:
                path = path.replace(U('p1'), rnd.choice(['not-a-uuid', U('p11'), U('p1').upper(), U('p1').replace('-', ''), '%ff', 'é']))
            elif op == 2:
                path = path + '/' + rnd.choice(['x', '..', '%00', 'é', 'a' * 3000])
            elif op == 3:
                path = path.replace('/', '//', 1)
            elif op == 4:
                path = path.replace('CUSTOM_', rnd.choice(['custom_', 'CUSTOM_%0A', 'CUSTOM_' + 'A' * 300, '']))
            else:
                path = path.replace('VCPU', rnd.choice(['vcpu', 'NOSUCH', 'V%20CPU', '']))
        elif k == 'method':
            method = rnd.choice(['GET', 'PUT', 'POST', 'DELETE', 'PATCH', 'HEAD', 'OPTIONS', 'TRACE', 'FOO'])
    if raw is None and body is not None:
        try:
            raw = json.dumps(body).encode('utf-8')
        except (UnicodeEncodeError, ValueError, RecursionError):
            raw = json.dumps(body, ensure_ascii=True, default=str).encode('utf-8')
    if raw is not None and 'content-type' not in headers and 'no-content-type' not in headers:
        headers['content-type'] = 'application/json'
    headers.pop('no-content-type', None)
    from urllib.parse import quote
    qs = '&'.join('%s=%s' % (quote(str(k2), safe='%', errors='surrogatepass'),
                             quote(str(v2), safe='%:,!', errors='surrogatepass')) for k2, v2 in query)
    try:
        path.encode('ascii')
    except UnicodeEncodeError:
        # clients percent-encode what is not ASCII
        path = quote(path, safe='/%', errors='surrogatepass')
    full = path + ('?' + qs if qs else '')
    return method, full, headers, raw, '+'.join(desc)


def wants_json(headers):
    a = headers.get('accept')
    return a is None or 'application/json' in a and 'q=0' not in a or a == '*/*'


def wellformed(status, body, ver_ok):
    try:
        j = json.loads(body)
        e = j['errors'][0]
        ok = isinstance(e.get('status'), int) and e['status'] == status and isinstance(e.get('title'), str) \
            and 'detail' in e and 'request_id' in e
        return bool(ok)
    except Exception:
        return False


def validate(lines, timeout=3600):
    d = tempfile.mkdtemp(prefix='pv-fuzz-')
    try:
        path = os.path.join(d, 'fuzz.ndjson')
        with open(path, 'w') as f:
            for ln in lines:
                f.write(json.dumps(ln, sort_keys=True))
                f.write('\n')
        rc, out, wall = tlc.run('TraceFuzz', 'TraceFuzz.cfg', env={'TRACE_FILE': path}, workers=1,
                                timeout=timeout, metadir=os.path.join(d, 'm'))
        verdicts = {}
        for v in tlc.printed_values(out, 'ZV'):
            verdicts[v[1]] = sorted(v[2])
        if len(verdicts) != len(lines) or 'Error:' in out:
            raise tlc.TLCError('TraceFuzz judged %d of %d lines (rc %s)\n%s' % (len(verdicts), len(lines), rc, out[-3000:]))
        return verdicts, wall
    finally:
        shutil.rmtree(d, ignore_errors=True)


def worker(job):
    from pv.app import get_app
    app = get_app()
    project.LENIENT[0] = True
    rnd = random.Random(job['seed'])
    lines = []
    meta = {}
    hist = {}
    for nested in job['topologies']:
        st0 = base_state(app, nested)
        sds = seeds(st0)
        empty_post = {'rp': {}, 'inv': {}, 'alloc': {}, 'cons': {}, 'traits': {}, 'aggs': {}, 'classes': {}, 'ctraits': {}}
        for n in range(job['n'] // len(job['topologies'])):
            seed = rnd.choice(sds)
            method, full, headers, raw, desc = mutate(rnd, seed)
            escaped = False
            try:
                status, rh, rb = app.call(method, full, headers, raw)
            except BaseException as ex:       # nothing may escape the WSGI stack
                escaped = True
                status, rh, rb = 599, {}, repr(ex).encode()[:300]
            post, extra = project.dump(app.engine)
            changed = post != st0
            lid = len(lines) + 1
            wj = wants_json(headers) and method != 'HEAD'   # a HEAD response has no body
            wf = True
            if 400 <= status < 500:
                wf = wellformed(status, rb, True)
            lines.append({'id': lid, 'status': status, 'escaped': escaped, 'wants_json': bool(wj),
                          'wellformed': bool(wf), 'changed': bool(changed), 'has_post': bool(changed),
                          'post': post if changed else empty_post})
            meta[lid] = {'method': method, 'path': full[:600], 'headers': {k: v[:100] for k, v in headers.items()},
                         'body': (raw or b'')[:800].decode('utf-8', 'replace'), 'mutation': desc,
                         'answer': rb[:300].decode('utf-8', 'replace'), 'nested_sharing': nested}
            hk = '%s:%s' % (seed[0] + ' ' + seed[1].split('?')[0][:40].replace(U('p1'), '{p1}').replace(U('p2'), '{p2}').replace(U('c1'), '{c1}').replace(U('c2'), '{c2}'), status)
            hist[hk] = hist.get(hk, 0) + 1
            if changed:
                app.restore('fuzz')
    verdicts, wall = validate(lines)
    bad = []
    for ln in lines:
        v = verdicts[ln['id']]
        if v:
            m = meta[ln['id']]
            m = dict(m, monitors=v, status=ln['status'])
            bad.append(m)
    return {'n': len(lines), 'bad': bad, 'hist': hist,
            'sample': [dict(meta[1], status=lines[0]['status'])] if lines else []}
