SPECIFICATION Spec
CONSTANTS
  StdT = {"t1", "t2", "t3"}
  StdC = {"k1", "k2"}
  MAXFAULTS = 3
  FLAG_IN_FINALLY = TRUE
INVARIANT TypeOK
INVARIANT UpMeansComplete
INVARIANT FlagsTruthful
PROPERTY Monotone
CHECK_DEADLOCK FALSE
