"""Scripted histories: the operation sequences the properties name explicitly
and the reproductions of every finding (fixed ones stay here so that a
regression is reported again)."""
from pv import names

MAXINT = 2147483647


def INV(total, **k):
    d = dict(total=total, reserved=0, min_unit=1, max_unit=MAXINT,
             step_size=1, num=1, den=1)
    d.update(k)
    return d


class S(object):
    """Convenience wrapper around a Recorder for writing scripts."""

    def __init__(self, rec, rnd):
        self.rec = rec
        self.rnd = rnd

    @property
    def st(self):
        if self.rec._pre is None:
            self.rec._pre, _ = self.rec.state()
        return self.rec._pre

    def gen(self, u):
        return self.st['rp'][u]['gen'] if u in self.st['rp'] else 0

    def cgen(self, c):
        return self.st['cons'][c]['gen'] if c in self.st['cons'] else -1

    def do(self, **r):
        return self.rec.step(r)

    def mk(self, u, parent='', v=39):
        return self.do(op='rp_create', v=v, u=u, name=u, parent=parent)

    def invs(self, u, v=39, **classes):
        return self.do(op='inv_put_all', v=v, u=u, gen=self.gen(u),
                       invs=[{'rc': k, 'inv': i if isinstance(i, dict) else INV(i)}
                             for k, i in classes.items()])

    def entry(self, c, allocs, project='proj1', user='user1', ctype='INSTANCE',
              cgen=None):
        return {'c': c, 'project': project, 'user': user,
                'cgen': self.cgen(c) if cgen is None else cgen, 'ctype': ctype,
                'allocs': [{'u': u, 'res': [{'rc': k, 'amt': a} for k, a in res.items()]}
                           for u, res in allocs.items()]}

    def put(self, c, allocs, v=39, **kw):
        e = self.entry(c, allocs, **kw)
        return self.do(op='alloc_put', v=v, **e)

    def post(self, entries, v=39):
        return self.do(op='alloc_post', v=v, entries=entries)

    def reshape(self, invs, entries, v=39):
        return self.do(op='reshape', v=v,
                       invs=[{'u': u, 'gen': self.gen(u),
                              'invs': [{'rc': k, 'inv': i if isinstance(i, dict) else INV(i)}
                                       for k, i in d.items()]}
                             for u, d in invs.items()],
                       entries=entries)

    def reads(self):
        for u in sorted(self.st['rp']):
            self.do(op='rp_get', v=39, u=u)
            self.do(op='inv_list', v=39, u=u)
            self.do(op='rp_usages', v=39, u=u)
            self.do(op='rp_allocs', v=39, u=u)
        for c in sorted(set(self.st['cons']) | {'c1'}):
            self.do(op='alloc_get', v=39, c=c)
        self.do(op='usages', v=39, project='proj1', user='', ctype='')


def basic_tree(s):
    s.mk('p1')
    s.mk('p2', 'p1')
    s.mk('p3')
    s.invs('p1', VCPU=INV(8, num=2), MEMORY_MB=1024)
    s.invs('p2', DISK_GB=100)
    s.invs('p3', VCPU=4, DISK_GB=INV(50, reserved=10))


def f7_empty_write_unknown_consumer(s):
    basic_tree(s)
    for v in (28, 34, 38, 39):
        s.put('c1', {}, v=v, cgen=-1)                 # empty write, unknown consumer
        s.do(op='alloc_get', v=39, c='c1')
        s.put('c1', {'p1': {'VCPU': 1}}, v=v, cgen=-1)  # must still be creatable
        s.put('c1', {}, v=v)                          # remove again
    s.post([s.entry('c2', {}, cgen=-1), s.entry('c3', {'p3': {'VCPU': 1}}, cgen=-1)])
    s.put('c2', {'p1': {'VCPU': 1}}, cgen=-1)
    s.reshape({'p3': {'VCPU': 4, 'DISK_GB': 50}}, [s.entry('c4', {}, cgen=-1)])
    s.put('c4', {'p1': {'VCPU': 1}}, cgen=-1)
    s.reads()


def f9_unknown_provider_new_consumer(s):
    basic_tree(s)
    for v in (1, 8, 12, 28, 39):
        s.put('c1', {'p7': {'VCPU': 1}}, v=v, cgen=-1)      # p7 does not exist
        s.put('c1', {'p1': {'VCPU': 1}, 'p7': {'VCPU': 1}}, v=v, cgen=-1)
        s.put('c1', {'p1': {'VCPU': 1}}, v=v, cgen=-1)      # retry must succeed
        s.do(op='alloc_del', v=39, c='c1')
    s.post([s.entry('c1', {'p1': {'VCPU': 1}}, cgen=-1),
            s.entry('c2', {'p7': {'VCPU': 1}}, cgen=-1)])
    s.post([s.entry('c1', {'p1': {'VCPU': 1}}, cgen=-1),
            s.entry('c2', {'p2': {'DISK_GB': 1}}, cgen=-1)])
    s.reshape({'p3': {'VCPU': 4}}, [s.entry('c3', {'p7': {'VCPU': 1}}, cgen=-1)])
    s.reshape({'p3': {'VCPU': 4}}, [s.entry('c3', {'p3': {'VCPU': 1}}, cgen=-1)])
    s.reads()


def reshape_moves_class(s):
    """The classic reshape: inventory and allocations move from the parent to
    a new child; then the emptied class is dropped from the parent."""
    s.mk('p1')
    s.invs('p1', VCPU=8, DISK_GB=100, MEMORY_MB=1024)
    s.put('c1', {'p1': {'VCPU': 2, 'DISK_GB': 10}})
    s.put('c2', {'p1': {'VCPU': 1, 'DISK_GB': 20, 'MEMORY_MB': 64}})
    s.mk('p2', 'p1')
    # moving only one consumer leaves DISK_GB in use on p1: refused
    s.reshape({'p1': {'VCPU': 8, 'MEMORY_MB': 1024}, 'p2': {'DISK_GB': 100}},
              [s.entry('c1', {'p1': {'VCPU': 2}, 'p2': {'DISK_GB': 10}})])
    s.reads()
    s.reshape({'p1': {'VCPU': 8, 'MEMORY_MB': 1024}, 'p2': {'DISK_GB': 100}},
              [s.entry('c1', {'p1': {'VCPU': 2}, 'p2': {'DISK_GB': 10}}),
               s.entry('c2', {'p1': {'VCPU': 1, 'MEMORY_MB': 64}, 'p2': {'DISK_GB': 20}})])
    s.reads()
    # shrinking below usage through the reshaper
    s.reshape({'p2': {'DISK_GB': 25}}, [])
    s.reshape({'p2': {'DISK_GB': INV(100, max_unit=5)}},
              [s.entry('c1', {'p1': {'VCPU': 2}, 'p2': {'DISK_GB': 10}})])
    s.reshape({'p2': {}}, [])
    s.reshape({'p2': {}}, [s.entry('c1', {'p1': {'VCPU': 2}}), s.entry('c2', {})])
    s.reads()
    s.do(op='rp_delete', v=39, u='p2')
    s.do(op='rp_delete', v=39, u='p1')
    s.reads()


def drop_class_in_use(s):
    basic_tree(s)
    s.do(op='rc_post', v=39, name='CUSTOM_RC1')
    s.invs('p3', VCPU=4, DISK_GB=50, CUSTOM_RC1=5)
    s.put('c1', {'p3': {'VCPU': 1, 'CUSTOM_RC1': 2}})
    s.put('c2', {'p3': {'DISK_GB': 5}})
    s.invs('p3', VCPU=4, DISK_GB=50)           # CUSTOM_RC1 held by c1: refused
    s.do(op='inv_del', v=39, u='p3', rc='CUSTOM_RC1')
    s.do(op='inv_del_all', v=39, u='p3')
    s.do(op='rc_del', v=39, name='CUSTOM_RC1')
    s.do(op='rp_delete', v=39, u='p3')
    s.put('c1', {'p3': {'VCPU': 1}})
    s.invs('p3', VCPU=4, DISK_GB=50)           # now allowed
    s.do(op='rc_del', v=39, name='CUSTOM_RC1')
    s.do(op='alloc_del', v=39, c='c1')
    s.do(op='alloc_del', v=39, c='c2')
    s.do(op='rp_delete', v=39, u='p3')
    s.do(op='trait_put', v=39, name='CUSTOM_T1')
    s.do(op='rp_traits_put', v=39, u='p1', gen=s.gen('p1'), traits=['CUSTOM_T1', 'HW_CPU_X86_AVX'])
    s.do(op='trait_del', v=39, name='CUSTOM_T1')
    s.do(op='trait_del', v=39, name='HW_CPU_X86_AVX')
    s.do(op='rp_traits_del', v=39, u='p1')
    s.do(op='trait_del', v=39, name='CUSTOM_T1')
    s.reads()


def subtree_moves(s):
    """C09: moves of whole subtrees between trees and to the top level."""
    for u, par in (('p1', ''), ('p2', 'p1'), ('p3', 'p2'), ('p4', 'p3'),
                   ('p5', ''), ('p6', 'p5'), ('p7', ''), ('p8', 'p2')):
        s.mk(u, par)
    mv = lambda u, par, v=39: s.do(op='rp_update', v=v, u=u, name=u, parent=par)
    mv('p2', 'p5', v=36)      # move before 1.37: refused
    mv('p2', 'null', v=36)    # detach before 1.37: refused
    mv('p7', 'p6', v=14)      # first-time parenting is fine at 1.14
    mv('p2', 'p6')            # subtree p2,p3,p4,p8 moves under the other tree
    mv('p5', 'p4')            # loop
    mv('p5', 'p5')            # self
    mv('p3', 'null')          # subtree p3,p4 to the top level
    mv('p1', 'p4')            # old root under its former grandchild's subtree
    mv('p3', 'p9')            # missing parent
    s.do(op='rp_delete', v=39, u='p3')   # has children
    s.do(op='rp_delete', v=39, u='p1')
    s.do(op='rp_delete', v=39, u='p4')
    s.do(op='rp_delete', v=39, u='p3')
    for u in sorted(s.st['rp']):
        s.do(op='rp_get', v=39, u=u)


def parent_spellings(s):
    """C09: the same moves with the parent's uuid written in other forms the
    uuid format admits (API!Readings): whichever reading the service takes,
    a loop is refused and the forest stays a forest."""
    for u, par in (('p1', ''), ('p2', 'p1'), ('p3', 'p2'), ('p4', ''), ('p5', 'p4')):
        s.mk(u, par)
    mv = lambda u, par, how, v=39: s.do(op='rp_update', v=v, u=u, name=u, parent=par, pspell=how)
    for how in ('upper', 'nodash', 'braces'):
        mv('p1', 'p3', how)          # loop through a grandchild
        mv('p1', 'p2', how, v=14)    # loop, first-time parenting at 1.14
        mv('p2', 'p2', how)          # self
        mv('p4', 'p5', how, v=36)
        mv('p4', 'p3', how)          # legal move of a root under another tree
        mv('p4', 'null', how)
        s.do(op='rp_create', v=39, u='p6', name='p6', parent='p3', pspell=how)
        s.do(op='rp_create', v=14, u='p6', name='p6', parent='p6', pspell=how)
        s.do(op='rp_delete', v=39, u='p6')
    for u in sorted(s.st['rp']):
        s.do(op='rp_get', v=39, u=u)


def ratio_nudges(s):
    """C11: a successful inventory write that changes nothing but the
    allocation ratio, and that by very little, is stored like any other."""
    s.mk('p1')
    near = [(16, 1), (1048577, 65536), (16, 1), (1048575, 65536), (3, 2), (98305, 65536), (3, 2)]
    for num, den in near:
        s.invs('p1', VCPU=INV(100, num=num, den=den), DISK_GB=INV(50, num=num, den=den))
        s.do(op='inv_list', v=39, u='p1')
    for num, den in near:
        s.do(op='inv_put', v=39, u='p1', gen=s.gen('p1'), rc='VCPU', inv=INV(100, num=num, den=den))
        s.do(op='inv_get', v=39, u='p1', rc='VCPU')
    for num, den in near:
        s.reshape({'p1': {'VCPU': INV(100, num=num, den=den), 'DISK_GB': INV(50, num=num, den=den)}}, [])
        s.do(op='inv_list', v=39, u='p1')


def consumer_lifecycle(s):
    """C12 at the four version bands."""
    basic_tree(s)
    s.put('c1', {'p1': {'VCPU': 1}}, v=7)       # placeholder project / user
    s.do(op='alloc_get', v=39, c='c1')
    s.put('c1', {'p1': {'VCPU': 2}}, v=8, project='proj2', user='user2')
    s.do(op='alloc_get', v=39, c='c1')
    s.put('c1', {'p1': {'VCPU': 2}}, v=28, project='proj2', user='user2')
    s.put('c1', {'p1': {'VCPU': 1}}, v=38, project='proj3', user='user1', ctype='MIGRATION')
    s.do(op='alloc_get', v=38, c='c1')
    s.put('c1', {'p1': {'VCPU': 1}}, v=37, project='proj3', user='user1')  # type kept
    s.do(op='usages', v=38, project='proj3', user='', ctype='')
    s.put('c1', {}, v=28)                        # removed by an empty PUT
    s.do(op='alloc_get', v=39, c='c1')
    s.put('c1', {'p1': {'VCPU': 1}}, v=39, cgen=-1)   # can be created again
    s.post([s.entry('c1', {}), s.entry('c2', {'p2': {'DISK_GB': 1}})])
    s.put('c1', {'p1': {'VCPU': 100}}, cgen=-1)  # first write rejected (capacity)
    s.put('c1', {'p1': {'VCPU': 1}}, cgen=-1)
    s.do(op='alloc_del', v=39, c='c1')
    s.put('c1', {'p1': {'VCPU': 1}}, cgen=-1)
    s.reshape({'p1': {'VCPU': 8, 'MEMORY_MB': 1024}}, [s.entry('c1', {}), s.entry('c2', {'p2': {'DISK_GB': 2}})])
    s.put('c1', {'p1': {'VCPU': 1}}, cgen=-1)
    s.reads()


def names_lifecycle(s):
    """C19: class / trait creation, rename, deletion, id reuse."""
    d = s.do
    d(op='rc_post', v=39, name='CUSTOM_RC1')
    d(op='rc_post', v=39, name='CUSTOM_RC2')
    d(op='rc_post', v=39, name='CUSTOM_RC1')
    d(op='rc_put', v=39, name='CUSTOM_RC3', newname='')
    d(op='rc_put', v=39, name='CUSTOM_RC3', newname='')
    d(op='rc_del', v=39, name='CUSTOM_RC3')     # highest id deleted
    d(op='rc_put', v=7, name='CUSTOM_RC4', newname='')   # may reuse it
    d(op='rc_del', v=39, name='CUSTOM_RC1')     # a hole below the top
    d(op='rc_post', v=2, name='CUSTOM_RC1')
    d(op='rc_put', v=6, name='CUSTOM_RC1', newname='CUSTOM_RC3')
    d(op='rc_put', v=6, name='CUSTOM_RC2', newname='CUSTOM_RC3')   # exists
    d(op='rc_put', v=6, name='VCPU', newname='CUSTOM_RC1')          # standard
    d(op='rc_put', v=6, name='CUSTOM_RC2', newname='VCPU')          # bad name
    d(op='rc_put', v=39, name='VCPU', newname='')
    d(op='rc_del', v=39, name='VCPU')
    d(op='rc_post', v=39, name='VCPU')
    d(op='rc_post', v=39, name='NOSUCH')
    d(op='rc_list', v=39)
    for n in ('CUSTOM_T1', 'CUSTOM_T1', 'HW_CPU_X86_AVX', 'NOSUCH'):
        d(op='trait_put', v=39, name=n)
    # "_" in a prefix is an ordinary character: CUSTOM_T_ is a prefix of no trait here
    for pre in ('CUSTOM_T', 'CUSTOM_T_', 'CUSTOM_', 'HW_'):
        d(op='traits_list', v=39, fkind='startswith', names=[], prefix=pre, assoc='')
    for n in ('HW_CPU_X86_AVX', 'NOSUCH', 'CUSTOM_T1', 'CUSTOM_T1'):
        d(op='trait_del', v=39, name=n)
    d(op='traits_list', v=39, fkind='startswith', names=[], prefix='CUSTOM_', assoc='')


def reshape_tightens_units(s):
    """C01: a reshape that keeps classes and capacity and only tightens a unit
    constraint must judge its own allocations by the new constraint."""
    s.mk('p1')
    s.mk('p2', 'p1')
    s.invs('p1', VCPU=8, DISK_GB=100)
    s.invs('p2', VCPU=8)
    s.put('c1', {'p1': {'VCPU': 4, 'DISK_GB': 10}})
    for field, val, amt in (('max_unit', 2, 4), ('min_unit', 3, 2), ('step_size', 3, 4)):
        inv = dict(INV(8))
        inv[field] = val
        if inv['min_unit'] > inv['max_unit']:
            inv['max_unit'] = inv['min_unit']
        # refused: the amount breaks the new constraint
        s.reshape({'p1': {'VCPU': inv, 'DISK_GB': 100}}, [s.entry('c1', {'p1': {'VCPU': amt, 'DISK_GB': 10}})])
        # the same for a second consumer and on the child
        s.reshape({'p2': {'VCPU': inv}}, [s.entry('c2', {'p2': {'VCPU': amt}}, cgen=-1)])
        s.reads()
    # accepted: amounts that fit the new constraint
    inv = dict(INV(8))
    inv['max_unit'] = 2
    s.reshape({'p1': {'VCPU': inv, 'DISK_GB': 100}}, [s.entry('c1', {'p1': {'VCPU': 2, 'DISK_GB': 10}})])
    s.reads()


def list_form_duplicates(s):
    """C01 / C11: the list form of PUT /allocations (below 1.12) naming a provider twice:
    the last entry replaces the first; amounts are judged as stored."""
    s.mk('p1')
    s.mk('p2', 'p1')
    s.invs('p1', VCPU=INV(16, max_unit=4), DISK_GB=INV(100, step_size=5))
    s.invs('p2', VCPU=INV(4, min_unit=2))
    for v in (0, 7, 8, 11):
        def put(c, allocs):
            e = s.entry(c, {}, cgen=-1)
            e['allocs'] = allocs
            return s.do(op='alloc_put', v=v, **e)
        put('c1', [{'u': 'p1', 'res': [{'rc': 'VCPU', 'amt': 4}]}, {'u': 'p1', 'res': [{'rc': 'VCPU', 'amt': 4}]}])
        s.reads()
        put('c2', [{'u': 'p1', 'res': [{'rc': 'VCPU', 'amt': 3}]}, {'u': 'p2', 'res': [{'rc': 'VCPU', 'amt': 2}]},
                   {'u': 'p1', 'res': [{'rc': 'VCPU', 'amt': 2}, {'rc': 'DISK_GB', 'amt': 10}]}])
        s.reads()
        put('c1', [{'u': 'p1', 'res': [{'rc': 'VCPU', 'amt': 5}]}, {'u': 'p1', 'res': [{'rc': 'VCPU', 'amt': 1}]}])   # the dropped entry breaks max_unit
        put('c1', [{'u': 'p1', 'res': [{'rc': 'DISK_GB', 'amt': 5}]}, {'u': 'p1', 'res': [{'rc': 'DISK_GB', 'amt': 7}]}])   # the kept one breaks step_size
        s.reads()
        s.do(op='alloc_del', v=39, c='c1')
        s.do(op='alloc_del', v=39, c='c2')


def sync_histories(s):
    """C19: start-up synchronisation from an empty, a partially and a fully
    synchronised database, repeated, interleaved with API requests."""
    import os_resource_classes as orc
    import os_traits
    rnd = s.rnd
    rec = s.rec
    std_c = list(orc.STANDARDS)
    std_t = [t for t in os_traits.get_traits()]
    unused_c = [c for c in std_c if c not in ('VCPU', 'MEMORY_MB', 'DISK_GB')]
    # empty database
    rec.desync(all_=True)
    s.do(op='sync', v=39)
    s.do(op='sync', v=39)               # idempotent
    s.do(op='rc_post', v=39, name='CUSTOM_RC1')
    s.mk('p1')
    s.invs('p1', VCPU=4, CUSTOM_RC1=2)
    s.do(op='trait_put', v=39, name='CUSTOM_T1')
    # an older library: the newest standard names are missing (a suffix)
    k = rnd.randint(1, 12)
    rec.desync(classes=std_c[-k:], traits=rnd.sample(std_t, 15))
    s.do(op='sync', v=39)
    s.do(op='rc_list', v=39)
    s.do(op='rc_post', v=39, name='CUSTOM_RC2')
    s.do(op='inv_list', v=39, u='p1')
    # an arbitrary subset is missing
    rec.desync(classes=rnd.sample(unused_c, rnd.randint(1, 6)), traits=rnd.sample(std_t, 40))
    s.do(op='sync', v=39)
    s.do(op='sync', v=39)
    s.do(op='rc_put', v=39, name='CUSTOM_RC3', newname='')
    s.do(op='rc_del', v=39, name='VCPU')
    s.do(op='trait_del', v=39, name='HW_CPU_X86_AVX')
    s.do(op='rc_list', v=39)
    # a newer library adds a few names to a deployment that has at least as many custom ones:
    # the number of rows says nothing about what is missing
    for n in ('CUSTOM_T2', 'CUSTOM_T3', 'CUSTOM_T4'):
        s.do(op='trait_put', v=39, name=n)
    s.do(op='rc_post', v=39, name='CUSTOM_RC4')
    rec.desync(classes=rnd.sample(unused_c, 2), traits=rnd.sample([t for t in std_t if t != 'HW_CPU_X86_AVX'], 2))
    s.do(op='sync', v=39)
    s.do(op='sync', v=39)
    s.do(op='traits_list', v=39, fkind='', names=[], prefix='', assoc='')
    rec.desync(classes=rnd.sample(unused_c, 1), traits=rnd.sample(std_t, 1))
    s.do(op='sync', v=39)
    # only the first few are there
    rec.desync(classes=[c for c in std_c[3:] ])
    s.do(op='sync', v=39)
    s.do(op='rp_usages', v=39, u='p1')
    s.do(op='rc_get', v=39, name='VCPU')


def joint_overflow(s):
    """C01: several consumers of one request land on one inventory that others
    already use: each amount fits, their sum fits an empty inventory, but
    together with the existing usage it does not."""
    s.mk('p1')
    s.mk('p2', 'p1')
    s.invs('p1', VCPU=10, DISK_GB=INV(20, num=1, den=2), MEMORY_MB=INV(8, reserved=2, num=2))
    s.invs('p2', VCPU=INV(4, num=3, den=2))
    s.put('c3', {'p1': {'VCPU': 4, 'DISK_GB': 4, 'MEMORY_MB': 4}, 'p2': {'VCPU': 2}})
    for v in (13, 28, 39):
        s.post([s.entry('c1', {'p1': {'VCPU': 5}}, cgen=-1), s.entry('c2', {'p1': {'VCPU': 5}}, cgen=-1)], v=v)
        s.post([s.entry('c1', {'p1': {'DISK_GB': 3}}, cgen=-1), s.entry('c2', {'p1': {'DISK_GB': 4}}, cgen=-1)], v=v)
        s.post([s.entry('c1', {'p1': {'MEMORY_MB': 4}}, cgen=-1), s.entry('c2', {'p1': {'MEMORY_MB': 5}}, cgen=-1)], v=v)
        s.post([s.entry('c1', {'p2': {'VCPU': 2}}, cgen=-1), s.entry('c2', {'p2': {'VCPU': 3}}, cgen=-1)], v=v)
    # the same through the reshaper, and with the sum exactly at the limit (accepted)
    s.reshape({'p2': {'VCPU': INV(4, num=3, den=2)}},
              [s.entry('c1', {'p1': {'VCPU': 3}}, cgen=-1), s.entry('c2', {'p1': {'VCPU': 4}}, cgen=-1)])
    s.post([s.entry('c1', {'p1': {'VCPU': 3}}, cgen=-1), s.entry('c2', {'p1': {'VCPU': 3}}, cgen=-1)])
    s.post([s.entry('c1', {'p1': {'VCPU': 4}}), s.entry('c2', {'p1': {'VCPU': 3}})])   # 4+4+3 > 10
    s.reads()


def usage_views(s):
    """C11: every view of usage over a project with two users, typed and
    untyped consumers."""
    basic_tree(s)
    s.put('c1', {'p1': {'VCPU': 2}, 'p2': {'DISK_GB': 10}}, v=39, project='proj1', user='user1', ctype='INSTANCE', cgen=-1)
    s.put('c2', {'p1': {'VCPU': 1}}, v=37, project='proj1', user='user1', cgen=-1)            # untyped
    s.put('c3', {'p3': {'VCPU': 1, 'DISK_GB': 5}}, v=39, project='proj1', user='user2', ctype='MIGRATION', cgen=-1)
    s.put('c4', {'p1': {'MEMORY_MB': 64}}, v=28, project='proj1', user='user2', cgen=-1)       # untyped
    s.put('c5', {'p3': {'DISK_GB': 1}}, v=39, project='proj2', user='user1', ctype='INSTANCE', cgen=-1)
    for v in (9, 37, 38, 39):
        for project in ('proj1', 'proj2', 'proj3'):
            for user in ('', 'user1', 'user2'):
                cts = [''] if v < 38 else ['', 'all', 'unknown', 'INSTANCE', 'MIGRATION', 'VOLUME']
                for ct in cts:
                    s.do(op='usages', v=v, project=project, user=user, ctype=ct)
    s.reads()


SCENARIOS = {
    'usage_views': usage_views,
    'joint_overflow': joint_overflow,
    'sync_histories': sync_histories,
    'f7_empty_write_unknown_consumer': f7_empty_write_unknown_consumer,
    'f9_unknown_provider_new_consumer': f9_unknown_provider_new_consumer,
    'reshape_moves_class': reshape_moves_class,
    'drop_class_in_use': drop_class_in_use,
    'subtree_moves': subtree_moves,
    'ratio_nudges': ratio_nudges,
    'parent_spellings': parent_spellings,
    'consumer_lifecycle': consumer_lifecycle,
    'names_lifecycle': names_lifecycle,
    'list_form_duplicates': list_form_duplicates,
    'reshape_tightens_units': reshape_tightens_units,
}


def run(name, rec, rnd):
    SCENARIOS[name](S(rec, rnd))


def read_back(rec, g):
    """After a write: the reads whose answer the write determines."""
    ln = rec.lines[-1]
    r = ln['req']
    if ln['resp']['status'] >= 300:
        return
    op = r['op']
    v = g.v()
    if op in ('inv_post', 'inv_put', 'inv_put_all', 'inv_del', 'inv_del_all'):
        rec.step({'op': 'inv_list', 'v': v, 'u': r['u']})
        rec.step({'op': 'rp_usages', 'v': v, 'u': r['u']})
    elif op in ('rp_create', 'rp_update'):
        rec.step({'op': 'rp_get', 'v': v, 'u': r['u']})
    elif op == 'agg_put':
        rec.step({'op': 'agg_get', 'v': max(v, 1), 'u': r['u']})
    elif op in ('rp_traits_put', 'rp_traits_del'):
        rec.step({'op': 'rp_traits_get', 'v': max(v, 6), 'u': r['u']})
    elif op in ('alloc_put', 'alloc_del'):
        rec.step({'op': 'alloc_get', 'v': v, 'c': r['c']})
        for a in r.get('allocs', [])[:2]:
            rec.step({'op': 'rp_allocs', 'v': v, 'u': a['u']})
            rec.step({'op': 'rp_usages', 'v': v, 'u': a['u']})
    elif op in ('alloc_post', 'reshape'):
        for e in r['entries'][:2]:
            rec.step({'op': 'alloc_get', 'v': v, 'c': e['c']})
        for x in r.get('invs', [])[:2]:
            rec.step({'op': 'inv_list', 'v': v, 'u': x['u']})
            rec.step({'op': 'rp_allocs', 'v': v, 'u': x['u']})
        rec.step({'op': 'usages', 'v': max(v, 9),
                  'project': names.PROJECTS[0], 'user': '', 'ctype': ''})
