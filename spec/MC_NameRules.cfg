SPECIFICATION NSpec
CONSTANTS
  Universe <- MCUniverse
  StdClasses <- MCStdClasses
  StdTraits <- MCStdTraits
  RenameSource <- MCRenameSource
INVARIANT C19_CustomNamesLegal
INVARIANT C19_StandardKept
INVARIANT C19_ExistingAnswered
INVARIANT C19_IllegalRefused
CONSTRAINT Small
