----------------------------- MODULE TraceSurface -----------------------------
(***************************************************************************)
(* Validation of the probing of the real service (pv/surface.py) against   *)
(* the tables of Surface.tla.  NDJSON lines of three kinds:                *)
(*  route   [route, method, vkind, v, status, hver, vary, cache, anycache] *)
(*  feature [fid, v, present]                                              *)
(*  policy  [route, method, caller, ovrule, ovkind, status, admin_status,  *)
(*           changed, leaked]                                              *)
(*  scope   [caller, projs, status, data]   GET /usages naming projects    *)
(*  hdr     [probe, method, route, v, status, hver, vary]                  *)
(***************************************************************************)
EXTENDS Surface, Json, IOUtils

VARIABLES i
Log == ndJsonDeserialize(IOEnv.TRACE_FILE)

RouteVerdict(ln) ==
  IF ln.vkind = "invalid" THEN (IF ln.status = 406 THEN {} ELSE {"C14_invalid_version_not_406"})
  ELSE
  LET d == Disposition(ln.route, ln.method, ln.v) IN
     (IF d = "404" /\ ln.status # 404 THEN {"C14_should_be_404"} ELSE {})
\cup (IF d = "405" /\ ln.status # 405 THEN {"C14_should_be_405"} ELSE {})
\cup (IF d = "handled" /\ ln.status \in {404, 405, 406} THEN {"C14_should_be_available"} ELSE {})
\cup (IF ln.status # 401 /\ ln.hver # ln.v THEN {"C14_version_header"} ELSE {})
\cup (IF ln.status # 401 /\ ~ln.vary THEN {"C14_vary_header"} ELSE {})
\* 1.15: last-modified and cache-control: no-cache on every GET response
\cup (IF d = "handled" /\ ln.method = "GET" /\ ln.status \in {200, 204}
         /\ ((ln.v >= CacheHeadersFrom /\ ~ln.cache) \/ (ln.v < CacheHeadersFrom /\ ln.anycache))
      THEN {"C14_cache_headers"} ELSE {})

\* hdr lines: responses of every origin (routing layer, policy, handler,
\* object layer, success).  The version of every probe is an accepted one.
HeaderVerdict(ln) ==
     (IF ln.status # 401 /\ ln.hver # ln.v THEN {"C14_version_header"} ELSE {})
\cup (IF ln.status # 401 /\ ~ln.vary THEN {"C14_vary_header"} ELSE {})
\* 1.15: the cache headers on every successful GET, whatever it returns
\cup (IF ln.method = "GET" /\ ln.status \in {200, 204}
         /\ ((ln.v >= CacheHeadersFrom /\ ~ln.cache) \/ (ln.v < CacheHeadersFrom /\ ln.anycache))
      THEN {"C14_cache_headers"} ELSE {})

FeatureVerdict(ln) ==
  IF ln.present = Present(ln.fid, ln.v) THEN {}
  ELSE IF ln.present THEN {"C14_feature_leaks_below_or_above_its_window"} ELSE {"C14_feature_missing_in_its_window"}

PolicyVerdict(ln) ==
  LET o == OpOf(ln.route, ln.method)
      allowed == Allows(o.rule, ln.caller, ln.ovrule, ln.ovkind)
      exempt == ln.admin_status \in {404, 405, 406, 415}
  IN
  IF ln.caller = "none"
  THEN (IF o.rule = "none" \/ ln.status = 401 THEN {} ELSE {"C16_unauthenticated_not_401"})
       \cup (IF ln.changed \/ (ln.leaked /\ o.rule # "none") THEN {"C16_unauthenticated_effect"} ELSE {})
  ELSE IF allowed
  THEN (IF ln.status \in {401, 403} THEN {"C16_allowed_caller_refused"} ELSE {})
  ELSE (IF ln.status = 403 \/ (exempt /\ ln.status = ln.admin_status) THEN {} ELSE {"C16_denied_caller_not_403"})
       \cup (IF ln.status < 300 THEN {"C16_denied_caller_succeeded"} ELSE {})
       \cup (IF ln.changed THEN {"C16_denied_request_changed_state"} ELSE {})
       \cup (IF ln.leaked THEN {"C16_denied_response_leaks_data"} ELSE {})

\* GET /usages: "a reader of the project queried".  A caller that passes the
\* default rule only through its project-scoped part obtains usages of its own
\* project or nothing, however the query names projects.
ScopeVerdict(ln) ==
  LET named == {ln.projs[k] : k \in DOMAIN ln.projs}
      unscoped == "admin" \in RolesOf(ln.caller) \/ "service" \in RolesOf(ln.caller)
      scoped == ~unscoped /\ "reader" \in RolesOf(ln.caller) IN
  IF unscoped THEN (IF ln.status \in {401, 403} THEN {"C16_allowed_caller_refused"} ELSE {})
  ELSE (IF ln.status < 300 /\ ln.data \in {"other", "mixed"} THEN {"C16_usages_of_another_project_obtained"} ELSE {})
  \cup (IF ~scoped /\ ln.status # 403 THEN {"C16_denied_caller_not_403"} ELSE {})
  \cup (IF scoped /\ named = {"other"} /\ ln.status # 403 THEN {"C16_denied_caller_not_403"} ELSE {})
  \cup (IF scoped /\ named = {"own"} /\ ln.status \in {401, 403} THEN {"C16_allowed_caller_refused"} ELSE {})
  \cup (IF scoped /\ ln.status \notin {200, 400, 403} THEN {"C16_denied_caller_not_403"} ELSE {})

Init == i = 1
Next == /\ i <= Len(Log)
        /\ PrintT(<<"UV", Log[i].id,
                    CASE Log[i].kind = "route" -> RouteVerdict(Log[i])
                      [] Log[i].kind = "feature" -> FeatureVerdict(Log[i])
                      [] Log[i].kind = "scope" -> ScopeVerdict(Log[i])
                      [] Log[i].kind = "hdr" -> HeaderVerdict(Log[i])
                      [] OTHER -> PolicyVerdict(Log[i])>>)
        /\ i' = i + 1
        /\ TLCSet(1, i)
Spec == Init /\ [][Next]_i
AllConsumed == TLCGet(1) = Len(Log)
ASSUME TLCSet(1, 0)
ASSUME Laws
=============================================================================
