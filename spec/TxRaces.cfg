SPECIFICATION RSpec
CONSTANT FIXES <- AllFixes
INVARIANT Inv_C05
INVARIANT Inv_C06
INVARIANT Inv_C07
INVARIANT Inv_C12
INVARIANT Inv_Struct
INVARIANT Report
CHECK_DEADLOCK FALSE
