------------------------------ MODULE TraceFuzz ------------------------------
(***************************************************************************)
(* C15: arbitrary input yields well-formed client errors, never a server   *)
(* error.  The input space is explored by the grammar-based mutator of     *)
(* pv/fuzz.py; this module is the oracle for each observed exchange.       *)
(*                                                                         *)
(* line: [id, status, escaped, wants_json, wellformed, changed, has_post,  *)
(*        post]                                                            *)
(* The next-state relation admits an exchange either as Accepted (2xx/3xx: *)
(* the mutated request was still one the service honours; the stored state *)
(* it leaves must satisfy the structural invariants) or as Rejected (4xx:  *)
(* errors-guideline body when JSON is acceptable to the client, and stored *)
(* state unchanged for the "malformed" statuses).  No action admits a 5xx  *)
(* or an escaped exception.                                                *)
(***************************************************************************)
EXTENDS Props, Json, IOUtils

VARIABLES i
Log == ndJsonDeserialize(IOEnv.TRACE_FILE)

NormState(j) ==
  [rp |-> j.rp, inv |-> j.inv, alloc |-> j.alloc, cons |-> j.cons,
   traits |-> [p \in DOMAIN j.traits |-> DOMAIN j.traits[p]],
   aggs |-> [p \in DOMAIN j.aggs |-> DOMAIN j.aggs[p]],
   classes |-> j.classes, ctraits |-> DOMAIN j.ctraits]

Malformed == {400, 404, 405, 406, 415}

Accepted(ln) == ln.status \in 200..399 /\ ~ln.escaped
Rejected(ln) == /\ ln.status \in 400..499 /\ ~ln.escaped
                /\ (ln.wants_json => ln.wellformed)
                /\ (ln.status \in Malformed => ~ln.changed)

Verdict(ln) ==
     (IF ln.escaped THEN {"C15_escaped_exception"} ELSE {})
\cup (IF ln.status >= 500 THEN {"C15_server_error"} ELSE {})
\cup (IF ln.status \in 400..499 /\ ln.wants_json /\ ~ln.wellformed THEN {"C15_error_body_not_guideline"} ELSE {})
\cup (IF ln.status \in Malformed /\ ln.changed THEN {"C15_rejected_request_changed_state"} ELSE {})
\cup (IF ln.status < 200 /\ ~ln.escaped THEN {"C15_not_a_response"} ELSE {})
\cup (IF ln.has_post /\ ~(C08_Inv(NormState(ln.post)) /\ C09_Inv(NormState(ln.post)) /\ C12_Inv(NormState(ln.post))
                          /\ TypeOK(NormState(ln.post)))
      THEN {"C15_accepted_input_corrupts_state"} ELSE {})
\cup (IF Accepted(ln) \/ Rejected(ln) \/ ln.escaped \/ ln.status >= 500 \/ ln.status < 200 THEN {} ELSE {"C15_not_admitted"})

Init == i = 1
Next == /\ i <= Len(Log)
        /\ PrintT(<<"ZV", Log[i].id, Verdict(Log[i])>>)
        /\ i' = i + 1
        /\ TLCSet(1, i)
Spec == Init /\ [][Next]_i
AllConsumed == TLCGet(1) = Len(Log)
ASSUME TLCSet(1, 0)
=============================================================================
