SPECIFICATION SimSpec
CONSTANTS
  P = {"p1", "p2", "p3"}
  K = {"VCPU", "DISK_GB", "CUSTOM_RC1"}
  C = {"c1", "c2"}
  T = {"CUSTOM_T1", "HW_CPU_X86_AVX"}
  A = {"agg1", "agg2"}
  INVS <- InvsSmall
  AMTS = {1, 2, 3}
  GROUPS <- G_all
  MAXGEN = 50
  MAXDEPTH = 200
INVARIANT Inv_TypeOK
INVARIANT Inv_C08
INVARIANT Inv_C09
INVARIANT Inv_C12
INVARIANT Inv_C19
PROPERTY Step_C01
PROPERTY Step_C04
PROPERTY Step_C10
CHECK_DEADLOCK FALSE
