"""Projection of the SQL tables onto the abstract state of spec/Data.tla.

Nothing is recomputed: the stored root pointer is reported as stored, and
references to missing rows are kept (as "?<kind><id>" names) so that the
referential-integrity predicates can see them.
"""
from fractions import Fraction

import os_resource_classes as orc
import os_traits
from sqlalchemy import text

from pv import names


class Unmodelled(Exception):
    pass


LENIENT = [False]


def ratio_to_frac(x):
    if LENIENT[0]:
        # fuzzing stores arbitrary floats; the structural invariants judged
        # there do not depend on the ratio
        try:
            f = Fraction(x).limit_denominator(1000)
            if abs(f.numerator) < (1 << 30):
                return f.numerator, f.denominator
        except Exception:
            pass
        return 1, 1
    f = Fraction(x)
    if f.denominator > (1 << 16) or abs(f.numerator) > (1 << 30):
        f2 = Fraction(x).limit_denominator(1000)
        if float(f2) == float(x):
            f = f2
        else:
            raise Unmodelled('ratio %r' % x)
    return f.numerator, f.denominator


def dump(engine):
    """Return (state, extra)."""
    with engine.connect() as conn:
        def q(sql):
            return conn.execute(text(sql)).fetchall()
        rps = q('SELECT id, uuid, name, generation, root_provider_id, '
                'parent_provider_id FROM resource_providers')
        invs = q('SELECT resource_provider_id, resource_class_id, total, '
                 'reserved, min_unit, max_unit, step_size, allocation_ratio '
                 'FROM inventories')
        allocs = q('SELECT resource_provider_id, consumer_id, '
                   'resource_class_id, used FROM allocations')
        cons = q('SELECT uuid, project_id, user_id, generation, '
                 'consumer_type_id FROM consumers')
        projects = q('SELECT id, external_id FROM projects')
        users = q('SELECT id, external_id FROM users')
        ctypes = q('SELECT id, name FROM consumer_types')
        rcs = q('SELECT id, name FROM resource_classes')
        traits = q('SELECT id, name FROM traits')
        rpt = q('SELECT resource_provider_id, trait_id '
                'FROM resource_provider_traits')
        aggs = q('SELECT id, uuid FROM placement_aggregates')
        rpa = q('SELECT resource_provider_id, aggregate_id '
                'FROM resource_provider_aggregates')
        conn.rollback()

    dangling = []
    id2rp = {r[0]: names.to_name(r[1]) for r in rps}
    id2rc = {r[0]: r[1] for r in rcs}
    id2trait = {r[0]: r[1] for r in traits}
    id2agg = {r[0]: names.to_name(r[1]) for r in aggs}
    id2proj = {r[0]: r[1] for r in projects}
    id2user = {r[0]: r[1] for r in users}
    id2ct = {r[0]: r[1] for r in ctypes}

    def rpn(i):
        if i in id2rp:
            return id2rp[i]
        return '?rp%s' % i

    def rcn(i):
        return id2rc.get(i, '?rc%s' % i)

    s_rp = {}
    for (i, u, name, gen, root, parent) in rps:
        s_rp[names.to_name(u)] = {
            'name': name if name is not None else '',
            'parent': '' if parent is None else rpn(parent),
            'root': '' if root is None else rpn(root),
            'gen': gen,
        }
    s_inv = {p: {} for p in s_rp}
    for (rp_id, rc_id, total, reserved, mn, mx, step, ratio) in invs:
        p = rpn(rp_id)
        if p not in s_inv:
            dangling.append('inventory of missing provider %s' % p)
            s_inv[p] = {}
        num, den = ratio_to_frac(ratio)
        s_inv[p][rcn(rc_id)] = {
            'total': total, 'reserved': reserved, 'min_unit': mn,
            'max_unit': mx, 'step_size': step, 'num': num, 'den': den}
    s_alloc = {}
    for (rp_id, c, rc_id, used) in allocs:
        cn = names.to_name(c)
        d = s_alloc.setdefault(cn, {}).setdefault(rpn(rp_id), {})
        k = rcn(rc_id)
        if k in d:
            dangling.append('duplicate allocation row %s %s %s' %
                            (cn, rpn(rp_id), k))
            d[k] += used
        else:
            d[k] = used
    s_cons = {}
    for (u, proj, user, gen, ct) in cons:
        s_cons[names.to_name(u)] = {
            'project': id2proj.get(proj, '?project%s' % proj),
            'user': id2user.get(user, '?user%s' % user),
            'ctype': 'unknown' if ct is None else id2ct.get(ct, '?ct%s' % ct),
            'gen': gen}
    s_traits = {p: [] for p in s_rp}
    for (rp_id, t_id) in rpt:
        p = rpn(rp_id)
        if p not in s_traits:
            dangling.append('trait association of missing provider %s' % p)
            s_traits[p] = []
        s_traits[p].append(id2trait.get(t_id, '?trait%s' % t_id))
    s_aggs = {p: [] for p in s_rp}
    for (rp_id, a_id) in rpa:
        p = rpn(rp_id)
        if p not in s_aggs:
            dangling.append('aggregate association of missing provider %s' % p)
            s_aggs[p] = []
        if a_id not in id2agg:
            dangling.append('association with missing aggregate %s' % a_id)
        s_aggs[p].append(id2agg.get(a_id, '?agg%s' % a_id))
    # sets travel as characteristic objects {"x": true}
    s_traits = {p: {t: True for t in sorted(v)} for p, v in s_traits.items()}
    s_aggs = {p: {a: True for a in sorted(v)} for p, v in s_aggs.items()}
    std_rc = set(orc.STANDARDS)
    classes = {n: i for i, n in id2rc.items() if n not in std_rc}
    std_tr = set(os_traits.get_traits())
    ctraits = {n: True for n in sorted(id2trait.values())
               if n not in std_tr}

    # standard vocabulary: present, and classes with their fixed identifiers
    rc_by_name = {n: i for i, n in id2rc.items()}
    std_classes_ok = all(rc_by_name.get(n) == idx
                         for idx, n in enumerate(orc.STANDARDS))
    names_tr = set(id2trait.values())
    std_traits_ok = std_tr <= names_tr
    extra = {
        'std_classes_ok': std_classes_ok,
        'std_traits_ok': std_traits_ok,
        'n_classes': len(rcs), 'n_traits': len(traits),
        'dup_class_ids': len(set(id2rc)) != len(rcs),
        'dangling': dangling,
        'aux': {'projects': sorted(id2proj.values()),
                'users': sorted(id2user.values()),
                'ctypes': sorted(id2ct.values()),
                'aggs': sorted(id2agg.values())},
    }
    state = {'rp': s_rp, 'inv': s_inv, 'alloc': s_alloc, 'cons': s_cons,
             'traits': s_traits, 'aggs': s_aggs, 'classes': classes,
             'ctraits': ctraits}
    return state, extra
