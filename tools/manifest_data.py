SEQ_NOTE = ('Trusted base: TLC, the Json community module, the projection pv/project.py (table dump -> abstract state), '
            'the renderer/parser pv/reqs.py, SQLite standing in for the production DBMS. The exhaustive TLC run covers the '
            'small constants of the listed MC_*.cfg only; beyond them the assurance is that every recorded step of every '
            'generated/scripted history is a step of the specification and satisfies the property monitors.')

def seq(text, design_ref, technique='TLC model checking of API.tla (MC_API) + TLC trace validation of recorded executions (TraceAPI.tla)'):
    return dict(engine='seq', category='model_checking', text=text, design_ref=design_ref,
                note=SEQ_NOTE, technique=technique)

CLAIMED = {
 'C01': seq('TLC exhausts the allocation sub-model (2 providers, 2 classes, 2 consumers, 3 inventory records, amounts 1-3, every choice of initial inventories) checking C01_Step on every transition; boundary-biased random and scripted histories are executed on the real WSGI stack and every step is validated by TLC against API!Apply with C01_Step evaluated on the observed step.', '7.1'),
 'C04': seq('Every rejected request of the TLC model and of every recorded history must leave the full abstract state (all tables except the aux residue) unchanged: C04_Step as an action property of MC_API and as a monitor on each recorded step.', '7.4'),
 'C08': seq('RefIntegrity as TLC invariant and C08_DeleteRules as action property on the forest, names and allocation sub-models; on recorded histories the projection keeps dangling references visible and both are evaluated after every request.', '7.8'),
 'C09': seq('TLC exhausts every labelled forest over 4 providers under create/update/delete at versions on both sides of 1.14 and 1.37 (Forest, RootCorrect, C09_Rejects); histories over 8 providers biased to subtree moves are validated step by step with the stored root pointer compared; parents are also named in other spellings of their uuid (upper case, without dashes, in braces), for which the model and the trace check admit either reading (API!Readings).', '7.9'),
 'C10': seq('C10_Step (must-bump / never-bump / never-decrease / returned generation equals stored) as action property of the TLC sub-models and as monitor on every recorded step; each write is followed by the reads that expose its generation.', '7.10'),
 'C11': seq('API!Apply is the documented meaning; every recorded step over all modelled routes, versions 1.0-1.39, valid and invalid arguments, must equal Apply in status, error code, abstract body and complete next state (generation values up to their magnitude, which no property demands). Spec -> code: behaviours simulated by TLC from MC_API are replayed into the real application. The repository\'s own gabbi functional corpus (79 files, 1 312 exchanges, not part of the pinned suite) is recorded through a WSGI layer and judged by TLC: exchanges inside the alphabet of Apply step by step, the others by the request-independent rules.', '7.11'),
 'C12': seq('ConsumerIffAllocs as TLC invariant, C12_Step as action property; histories over 4 consumers at the four version bands under default and custom incomplete_consumer_* configuration, validated step by step.', '7.12'),
 'C19': seq('C19_Inv / C19_Step on the names sub-model and on recorded histories of class/trait creation, rename and deletion; the projection compares the real os_traits / os_resource_classes vocabularies with the tables after every request. Character level: spec/NameRules.tla (legal custom name over code points, answers of the four creating operations) model checked through MC_NameRules, and crafted / mutated names sent to the real service with every exchange judged by TLC (TraceNames.tla): no illegal name stored, no duplicate, existing names answered 204 / 409. Start-up: every statement of the start-up synchronisation from an empty, partial and full database is failed once by an injected database error, and the start-up that follows in the same process must leave every standard name present (spec/Startup.tla, model checked: after every start-up that returns, all standard names exist, whatever failed before).', '7.19'),
}
CONC_NOTE = ('Trusted base: TLC, pv/sched.py (SQLAlchemy engine events park request threads at top-level transaction begin), '
             'pv/project.py, SQLite; transactions are scheduled one at a time (atomic and isolated, the premise stated by the property). '
             'Races are a fixed corpus of request pairs/triples from one start state; schedules beyond the tier limit of a race are not run.')

def conc(text, design_ref):
    return dict(engine='concur', category='model_checking', text=text, design_ref=design_ref, note=CONC_NOTE,
                technique='TLC model checking of Tx.tla (all interleavings of each race) + replay of every distinguishable transaction interleaving on the real code, judged by TLC against API!Apply (TraceSerial.tla) and against Tx.tla outcomes')

CLAIMED.update({
 'C05': conc('For every pair (and triples) of provider-writing request kinds on one provider (one with, one without inventory) with equal / stale / future generations: TLC explores all interleavings of the transaction-structure model Tx.tla (C05_Tx: a generation-carrying request changes the provider only in a commit that found that generation); the same races are executed on the real application under a deterministic transaction scheduler, every distinguishable interleaving, and TLC judges each execution (commit-time generation, at most one effective writer per generation, error status justified, outcome admitted by Tx.tla).', '7.5'),
 'C06': conc('Races of PUT /allocations, POST /allocations and POST /reshaper on one consumer (new or existing; generations null, current, stale, next, guessed 0): Tx.tla model checked by TLC (C06_Tx), every distinguishable interleaving replayed on the real code and judged by TLC (C06_Commits, C06_AtMostOne per incarnation of a consumer, admissible error statuses, outcome admitted by Tx.tla). Races of three are run under the straggler family (one request stops after j transactions, the other two complete, it resumes) and sampled (quick) or enumerated fewest-preemptions-first (thorough).', '7.6'),
 'C07': conc('Allocation writes for equal and different consumers racing for one inventory and against generation-guarded inventory shrink / trait / aggregate updates: SerializableTx as TLC invariant of Tx.tla; for every replayed interleaving TLC searches the serial orders of the effective successful requests under API!Apply for one that reproduces statuses and the final database.', '7.7'),
})
FAULT_NOTE = ('Trusted base: TLC, pv/faults.py (faults raised from the SQLAlchemy before_cursor_execute event), pv/project.py, SQLite. '
              'The database-side rollback of a deadlock victim is emulated (ROLLBACK; BEGIN on the raw cursor); crashes are a BaseException at the crash point. '
              'Exhaustive over every statement index of every request of the write corpus (30 requests), single faults.')
CLAIMED.update({
 'C17': dict(engine='fault', category='fault_enumeration', design_ref='7.17', note=FAULT_NOTE,
             technique='exhaustive fault injection at every SQL statement of a write corpus on the real code, each outcome judged by TLC against API!Apply (TraceFault.tla); Tx.tla with Fault actions model checked (ExactlyOnceOrClean)',
             text='For every request of the write corpus (all write routes, start-up sync from an empty / partial / full database) and every index k of its SQL statements: a deadlock (with and without database-side rollback), a duplicate key on first aggregate creation, a generic and a connection error is injected before statement k; TLC decides for each execution that a success is the effect of API!Apply exactly once (generations may have moved further only on the touched entities) and that an error is well formed and left the database unchanged.'),
 'C18': dict(engine='fault', category='fault_enumeration', design_ref='7.18', note=FAULT_NOTE,
             technique='exhaustive crash injection before every SQL statement of a write corpus on the real code, surviving state judged by TLC (TraceFault.tla); Tx.tla with Crash actions model checked (CrashConsistent)',
             text='The request is abandoned (process death, transaction in flight rolled back) before each of its SQL statements, i.e. before and after every statement and every commit; TLC decides that the surviving database is the one before or the one after the request apart from consumers without allocations, and satisfies capacity safety, referential integrity and the forest invariant.'),
})
CAND_NOTE = ('Trusted base: TLC, pv/cand.py (query renderer / response projection), pv/project.py, SQLite. The reference is declarative (spec/Candidates.tla) and shares no structure with the code; '
             'it is an envelope CandMust <= observed <= CandMay whose three documented corners are the only places where equality is not demanded. States and queries are generated within the C03 scope, not enumerated; '
             'the TLC model MC_Cand enumerates a small family systematically.')

def cnd(text, design_ref):
    return dict(engine='cand', category='model_checking', text=text, design_ref=design_ref, note=CAND_NOTE,
                technique='declarative TLA+ reference (Candidates.tla) evaluated by TLC on every recorded response of the real service (TraceCand.tla) + TLC model checking of the reference against API!Apply on a systematic small family (MC_Cand)')

CLAIMED.update({
 'C02': cnd('Every returned allocation request is checked by TLC for the structural laws (per class the placed amounts sum to the amounts asked, mappings name the providers that carry each group, providers exist) and the provider summaries for equality with the stored inventory / usage / traits / parent / root per microversion; each returned request (up to a bound per response) is then PUT unchanged as the allocations of a fresh consumer from a snapshot and must be answered 204. At design level TLC proves on 51 840 (state, query) pairs that every candidate of the reference is accepted by API!Apply.', '7.2'),
 'C03': cnd('For every generated (database state, query) pair without limit, TLC compares the observed set of (allocations, mappings) with the set comprehension of spec/Candidates.tla: nothing the rules require may be missing (CandMust), nothing outside them may be returned (CandMay); below 1.29 only one-provider-per-tree combinations. The candidate / listing reads of the repository\'s own gabbi functional corpus (204 queries in its NUMA, shared-storage, granular and same-subtree fixtures; not part of the pinned suite) are mapped to the same abstract queries and judged by the same TLC oracle.', '7.3'),
 'C13': cnd('For every generated combination of the listing filters (name, uuid, in_tree, member_of incl. repeated / in: / ! / !in:, required incl. in: and !, resources) in every generated state the returned uuid set must equal ListProviders(s, f); unknown traits / classes 400. The candidate / listing reads of the repository\'s own gabbi functional corpus (204 queries in its NUMA, shared-storage, granular and same-subtree fixtures; not part of the pinned suite) are mapped to the same abstract queries and judged by the same TLC oracle.', '7.13'),
 'C20': cnd('For queries with a non-empty unlimited result: every limit 1..M+1 under both settings of randomize_allocation_candidates and several seeds; TLC checks count = min(N, M), distinctness, subset of the unlimited result, summaries, and - randomisation off - that repetition returns the identical ordered list.', '7.20'),
})
SURF_NOTE = ('Trusted base: TLC, pv/surface.py (probe requests and presence predicates), the transcription of the documentation into spec/Surface.tla, noauth2 in place of keystone. '
             'The enumeration of the finite tables is complete; it is plain enumeration by the harness with TLC as the oracle, which is why the level is exploration (exhaustive), not model checking.')
CLAIMED.update({
 'C14': dict(engine='surface', category='exploration', design_ref='7.14', note=SURF_NOTE,
             technique='complete enumeration of the (route, method, version) and (feature, version) tables on the real service, each observation judged by TLC against spec/Surface.tla whose structural laws TLC checks (TraceSurface.tla)',
             text='Exhaustive: every route and method of the routing table (plus unknown paths and undeclared methods) at all 40 microversions, latest, no header and out-of-range versions: expected disposition 404 / 405 / 406 / handled and the openstack-api-version and Vary headers; each of 77 versioned features (request fields, query parameters, response keys, statuses, headers) probed at all 40 versions must be present exactly in its documented window.'),
 'C16': dict(engine='surface', category='exploration', design_ref='7.16', note=SURF_NOTE,
             technique='complete enumeration of (operation, caller class, single-rule override) on the real service with table dumps around every probe, judged by TLC against the policy table of spec/Surface.tla (TraceSurface.tla)',
             text='Exhaustive over the routing table x 7 caller classes (no credentials, no roles, reader of own / other project, member, admin, service) under the default policy and under every single-rule override to everyone / nobody: 401 without credentials, 403 for a caller the rule excludes (unless the request is 404/405/406/415 for every caller), never a success, no state change, no stored identifier in the body; allowed callers are never answered 401/403. GET /usages naming one to three projects (own / another, every order) x 5 caller classes x user_id / consumer_type variants: a caller passing only as reader of its own project never obtains the usages of another one.'),
})
CLAIMED.update({
 'C15': dict(engine='fuzz', category='exploration', design_ref='7.15',
             note='Trusted base: TLC as oracle, pv/fuzz.py (mutator, error-format check, table-dump comparison), SQLite. The input space is sampled by a seeded mutator; nothing is enumerated.',
             technique='grammar-based mutation of valid requests to every route on the real service; every exchange judged by TLC against spec/TraceFuzz.tla (Accepted / Rejected are the only admitted steps)',
             text='Seeded mutation (structure, type swaps, bounds up to 64-bit integers, deep and empty containers, unicode and control characters, repeated / conflicting query parameters, headers, media types, malformed JSON, paths, methods) of 40 valid seed requests covering every route, in a plain topology and one with a nested sharing provider; TLC admits an exchange only as Accepted (2xx/3xx, stored state satisfies the structural invariants) or Rejected (4xx with an errors-guideline body when JSON is acceptable, state unchanged for 400/404/405/406/415); a 5xx or an escaped exception is admitted by no action.'),
})
NOT_CLAIMED = {}
ENGINES = [
 {'name': 'seq', 'path': 'pv/seqengine.py', 'serves_properties': ['C01', 'C04', 'C08', 'C09', 'C10', 'C11', 'C12', 'C19'],
  'kind_free_text': 'TLA+ specification spec/API.tla (+Data, Props); TLC model checking of spec/MC_API.tla; TLC trace validation (spec/TraceAPI.tla) of executions recorded from the real WSGI application'},
]
ENGINES.append({'name': 'concur', 'path': 'pv/concur.py', 'serves_properties': ['C05', 'C06', 'C07'],
  'kind_free_text': 'spec/Tx.tla + TxRaces.tla (transaction-structure model, TLC); pv/sched.py deterministic transaction scheduler over the real WSGI app; spec/TraceSerial.tla (TLC judges each recorded interleaving)'})
ENGINES.append({'name': 'fault', 'path': 'pv/faults.py', 'serves_properties': ['C17', 'C18'],
  'kind_free_text': 'statement-level fault / crash injection through SQLAlchemy engine events; spec/TraceFault.tla judges each outcome with API!Apply; spec/Tx.tla Crash/Fault actions (TxSingle.cfg)'})
ENGINES.append({'name': 'cand', 'path': 'pv/cand.py', 'serves_properties': ['C02', 'C03', 'C13', 'C20'],
  'kind_free_text': 'spec/Candidates.tla declarative reference; spec/TraceCand.tla (TLC judges recorded responses); spec/MC_Cand.tla (TLC, reference vs API!Apply); claim replay of returned candidates'})
ENGINES.append({'name': 'surface', 'path': 'pv/surface.py', 'serves_properties': ['C14', 'C16'],
  'kind_free_text': 'spec/Surface.tla (version windows, feature windows, policy table + laws); exhaustive probing of the real service; spec/TraceSurface.tla (TLC judges every probe)'})
ENGINES.append({'name': 'gabbi', 'path': 'pv/gabbitrace.py', 'serves_properties': ['C11', 'C02', 'C03', 'C13'],
  'kind_free_text': "the repository's gabbi functional corpus recorded through a WSGI layer; pv/unrender.py maps HTTP exchanges to the abstract alphabet; TLC judges them with spec/TraceAPI.tla and spec/TraceCand.tla; names classified by TLC (spec/ClassifyNames.tla, NameRules.tla)"})
ENGINES.append({'name': 'names', 'path': 'pv/nameprobe.py', 'serves_properties': ['C19'],
  'kind_free_text': 'spec/NameRules.tla + Names.tla (TLC model MC_NameRules); crafted and mutated names sent to the creating operations, every exchange judged by TLC (spec/TraceNames.tla)'})
ENGINES.append({'name': 'fuzz', 'path': 'pv/fuzz.py', 'serves_properties': ['C15'],
  'kind_free_text': 'seeded grammar-based request mutator; spec/TraceFuzz.tla (TLC judges every exchange)'})
NOTES = 'See DESIGN.md. ./check <id> --tier quick|thorough [--seed N] [--replay FILE]; exit 2 = machinery failure.'
