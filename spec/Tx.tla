--------------------------------- MODULE Tx ---------------------------------
(***************************************************************************)
(* How the implementation realises a write request: as a sequence of       *)
(* database transactions, each atomic and isolated (the premise of C05 -   *)
(* C07), between which other requests may commit.  One TLA+ action per     *)
(* transaction class of DESIGN.md section 1.3 / Appendix B:                *)
(*                                                                         *)
(*  generation-guarded provider writes (PUT inventories, PUT inventory,    *)
(*  PUT traits, PUT aggregates >= 1.19), self-deriving provider writes     *)
(*  (POST/DELETE inventory, DELETE inventories, DELETE traits, PUT         *)
(*  aggregates < 1.19):                                                    *)
(*      ProvRead  -> Main (change + generation compare-and-swap)           *)
(*  allocation writes (PUT /allocations/{c}, POST /allocations, reshaper): *)
(*      [ReshapeRead] -> per consumer: ConsGet -> [ConsIns] ->             *)
(*      ProvRead -> [ClearRead] -> Main -> [Cleanup on failure]            *)
(*                                                                         *)
(* The effect of a main transaction that passes its guards is API!Apply's  *)
(* (WriteAllocs, Reshape, ...), which ties this module to API.tla: run     *)
(* alone, a request computes exactly Apply (property Refines).             *)
(*                                                                         *)
(* FIXES names the repaired defects; leaving one out re-creates the        *)
(* original behaviour, and TLC then exhibits the violating schedule        *)
(* (MC_Tx_orig.cfg), which is how the repairs were validated at design     *)
(* level before the code was touched.                                      *)
(***************************************************************************)
EXTENDS Serial

CONSTANTS FIXES,  \* SUBSET {"F2", "F3", "F13", "F14"}
          ENV     \* SUBSET {"crash", "fault"}: environment actions enabled

VARIABLES reqs,   \* sequence of API requests, one per process (never changes)
          db0,    \* start database, a Data state (never changes)
          db,     \* committed database
          pc,     \* per process: control point
          loc,    \* per process: what it has read so far
          resp,   \* per process: response once finished
          hist    \* commits that changed db: Seq([who, pre, post]) (history only)

vars == <<reqs, db0, db, pc, loc, resp, hist>>
Procs == DOMAIN reqs

IsAllocWriter(r) == r.op \in AllocWriters
EntriesOf(r) == IF r.op = "alloc_put"
                THEN <<[c |-> r.c, project |-> r.project, user |-> r.user, cgen |-> r.cgen,
                        ctype |-> r.ctype, allocs |-> r.allocs]>>
                ELSE r.entries
CU23(r) == IF r.v >= 23 THEN CU ELSE ""
UN23(r) == IF r.v >= 23 THEN UNDEF ELSE ""

NoLoc == [pgen |-> <<>>, cgen |-> <<>>, cinc |-> <<>>, created |-> {}, i |-> 1, rows |-> {}]

\* Consumers are rows with an identifier of their own: one that was removed and made anew is
\* another row, although it passes through the same generations again.  The code's
\* compare-and-swap on a consumer names the row it read (id and generation), and DELETE removes
\* the allocation rows it read.  Inc(c) says which incarnation of c the database holds; it is
\* counted from the commits (history only, no new variable).
Inc(c) == Cardinality({n \in DOMAIN hist : c \notin DOMAIN hist[n].pre.cons /\ c \in DOMAIN hist[n].post.cons})

InitWith(R, D) ==
  /\ reqs = R /\ db0 = D
  /\ db = D
  /\ pc = [k \in Procs |-> "start"]
  /\ loc = [k \in Procs |-> NoLoc]
  /\ resp = [k \in Procs |-> Resp(0, "", NoBody)]
  /\ hist = <<>>

Commit(k, newdb) ==
  /\ db' = newdb
  /\ hist' = IF newdb = db THEN hist ELSE Append(hist, [who |-> k, pre |-> db, post |-> newdb])

Finish(k, rs) == /\ resp' = [resp EXCEPT ![k] = rs]
                 /\ pc' = [pc EXCEPT ![k] = "done"]

\* an allocation writer that fails must still remove the consumers it created
FailAlloc(k, st, code) ==
  /\ resp' = [resp EXCEPT ![k] = Resp(st, code, NoBody)]
  /\ pc' = [pc EXCEPT ![k] = IF loc[k].created = {} THEN "done" ELSE "cleanup"]

---------------------------------------------------------------------------
\* requests that are decided by the sequential meaning in one transaction or
\* before touching the database (reads, version / schema rejections)

\* the provider a provider-write names
ProvOf(r) == r.u
IsProvWrite(r) == r.op \in {"inv_post", "inv_put", "inv_put_all", "inv_del", "inv_del_all",
                            "rp_traits_put", "rp_traits_del", "agg_put"}
CarriesGen(r) == r.op \in {"inv_put", "inv_put_all", "rp_traits_put"} \/ (r.op = "agg_put" /\ r.v >= 19)

\* Start: everything the handler decides before its first look at the data it
\* guards.  For provider writes: the lookup of the provider (its own read
\* transaction) and the comparison of a carried generation.
Start(k) ==
  LET r == reqs[k] IN
  /\ pc[k] = "start"
  /\ IF IsProvWrite(r) THEN
        LET a == Apply(db, r) IN
        \* rejections that do not depend on the race: version window, unknown
        \* provider, schema, stale carried generation
        IF r.u \notin Providers(db) \/ (a.resp.status >= 400 /\ a.resp.status # 409)
           \/ (CarriesGen(r) /\ r.gen # db.rp[r.u].gen)
        THEN Finish(k, a.resp) /\ UNCHANGED <<db, loc, hist>>
        ELSE /\ loc' = [loc EXCEPT ![k].pgen = [u \in {r.u} |-> db.rp[r.u].gen]]
             /\ pc' = [pc EXCEPT ![k] = "main"]
             /\ UNCHANGED <<db, resp, hist>>
     ELSE IF IsAllocWriter(r) THEN
        LET a == Apply(db, r) IN
        \* version window and schema are decided before any lookup
        IF (r.op = "alloc_post" /\ (r.v < 13 \/ r.entries = <<>>))
           \/ (r.op = "reshape" /\ (r.v < 30 \/ r.invs = <<>>))
           \/ (r.op = "alloc_put" /\ r.v < 28 /\ r.allocs = <<>>)
           \/ (\E i \in DOMAIN EntriesOf(r) : EntrySchemaBad(EntriesOf(r)[i]))
        THEN Finish(k, a.resp) /\ UNCHANGED <<db, loc, hist>>
        ELSE /\ pc' = [pc EXCEPT ![k] = IF r.op = "reshape" THEN "rinv" ELSE "consget"]
             /\ UNCHANGED <<db, loc, resp, hist>>
     ELSE IF r.op = "alloc_del" THEN
        \* DELETE /allocations/{c}: read the rows; delete them; delete the consumer if it has no rows
        IF r.c \in DOMAIN db.alloc /\ r.c \in DOMAIN db.cons
        THEN /\ loc' = [loc EXCEPT ![k].rows = {r.c}, ![k].cgen = [c \in {r.c} |-> db.cons[r.c].gen],
                                   ![k].cinc = [c \in {r.c} |-> Inc(r.c)]]
             /\ pc' = [pc EXCEPT ![k] = "delrows"]
             /\ UNCHANGED <<db, resp, hist>>
        ELSE Finish(k, Resp(404, UN23(r), NoBody)) /\ UNCHANGED <<db, loc, hist>>
     ELSE \* anything else: a single transaction with the sequential meaning
        LET a == Apply(db, r) IN
        Finish(k, a.resp) /\ Commit(k, a.s) /\ UNCHANGED loc

\* DELETE /allocations/{c}, writing transaction: the rows read are deleted by id
\* (rows written since then stay) and the consumer goes if it is left without
\* allocations; no generation is touched.  Originally these were two
\* transactions (F14): a failure between them left an error answer with the
\* allocations already gone.
DelRows(k) ==
  LET r == reqs[k]
      \* every allocation write bumps the consumer generation, so an unchanged
      \* generation means that the rows read are still the consumer's rows
      d1 == IF r.c \in DOMAIN db.cons /\ db.cons[r.c].gen = loc[k].cgen[r.c] /\ Inc(r.c) = loc[k].cinc[r.c]
            THEN [db EXCEPT !.alloc = Without(@, {r.c})] ELSE db
      d2 == IF r.c \in DOMAIN d1.cons /\ r.c \notin DOMAIN d1.alloc
            THEN [d1 EXCEPT !.cons = Without(@, {r.c})] ELSE d1
  IN
  /\ pc[k] = "delrows"
  /\ IF "F14" \in FIXES
     THEN Commit(k, d2) /\ Finish(k, Resp(204, "", NoBody))
     ELSE Commit(k, d1) /\ pc' = [pc EXCEPT ![k] = "delcons"] /\ UNCHANGED resp
  /\ UNCHANGED loc

DelCons(k) ==
  LET r == reqs[k] IN
  /\ pc[k] = "delcons"
  /\ Commit(k, IF r.c \in DOMAIN db.cons /\ r.c \notin DOMAIN db.alloc
               THEN [db EXCEPT !.cons = Without(@, {r.c})] ELSE db)
  /\ Finish(k, Resp(204, "", NoBody))
  /\ UNCHANGED loc

\* main transaction of a provider write: the change and the compare-and-swap
\* on the generation read in Start
ProvMain(k) ==
  LET r == reqs[k]
      g == loc[k].pgen[r.u] IN
  /\ pc[k] = "main" /\ IsProvWrite(r)
  /\ IF r.u \notin Providers(db)
     THEN Finish(k, Resp(409, CU23(r), NoBody)) /\ UNCHANGED <<db, hist>>
     ELSE
     \* PutTraitsNoop: no change, no compare-and-swap; the body reports the
     \* generation of the object read in Start
     IF \/ (r.op = "rp_traits_put" /\ (\A n \in DOMAIN r.traits : TraitKnown(db, r.traits[n]))
            /\ SeqRange(r.traits) = db.traits[r.u])
        \/ (r.op = "rp_traits_del" /\ db.traits[r.u] = {})
     THEN Finish(k, IF r.op = "rp_traits_put"
                    THEN Resp(200, "", [gen |-> g, traits |-> AsRec(SeqRange(r.traits))])
                    ELSE Resp(204, "", NoBody))
          /\ UNCHANGED <<db, hist>>
     ELSE IF r.op = "agg_put" /\ r.v < 19
     THEN LET a == Apply(db, r) IN Finish(k, a.resp) /\ Commit(k, a.s)
     ELSE
     \* evaluate the sequential meaning as if the generation were still g
     LET a == Apply([db EXCEPT !.rp[r.u].gen = g], IF CarriesGen(r) THEN [r EXCEPT !.gen = g] ELSE r) IN
     IF a.resp.status >= 400 THEN Finish(k, a.resp) /\ UNCHANGED <<db, hist>>
     ELSE IF db.rp[r.u].gen # g THEN Finish(k, Resp(409, CU23(r), NoBody)) /\ UNCHANGED <<db, hist>>
     ELSE Finish(k, a.resp) /\ Commit(k, a.s)
  /\ UNCHANGED loc

---------------------------------------------------------------------------
\* allocation writers

\* reshaper: the providers of the inventories part are read and their carried
\* generations compared first (one read transaction each; folded)
ReshapeRead(k) ==
  LET r == reqs[k]
      b == FirstBadInv(db, r.invs, 1) IN
  /\ pc[k] = "rinv"
  /\ IF b.status # 0 THEN Finish(k, Resp(b.status, IF r.v >= 23 THEN b.code ELSE "", NoBody)) /\ UNCHANGED loc
     ELSE /\ loc' = [loc EXCEPT ![k].pgen = [u \in {r.invs[n].u : n \in DOMAIN r.invs} |-> db.rp[u].gen]]
          /\ pc' = [pc EXCEPT ![k] = "consget"]
          /\ UNCHANGED resp
  /\ UNCHANGED <<db, hist>>

CurEntry(k) == EntriesOf(reqs[k])[loc[k].i]
NextCons(k) == IF loc[k].i < Len(EntriesOf(reqs[k])) THEN "consget" ELSE "provread"

\* lookup of the consumer of entry i and comparison of the carried generation
ConsGet(k) ==
  LET r == reqs[k]
      es == EntriesOf(r) IN
  /\ pc[k] = "consget"
  /\ IF es = <<>> THEN pc' = [pc EXCEPT ![k] = "provread"] /\ UNCHANGED <<loc, resp>>
     ELSE LET e == CurEntry(k) IN
       IF e.c \in DOMAIN db.cons THEN
          IF r.v >= 28 /\ db.cons[e.c].gen # e.cgen THEN FailAlloc(k, 409, CU23(r)) /\ UNCHANGED loc
          ELSE /\ loc' = [loc EXCEPT ![k].cgen = With(@, e.c, db.cons[e.c].gen),
                                     ![k].cinc = With(@, e.c, Inc(e.c)),
                                     ![k].i = IF @ < Len(es) THEN @ + 1 ELSE @]
               /\ pc' = [pc EXCEPT ![k] = NextCons(k)]
               /\ UNCHANGED resp
       ELSE
          IF r.v >= 28 /\ e.cgen # -1 THEN FailAlloc(k, 409, CU23(r)) /\ UNCHANGED loc
          ELSE pc' = [pc EXCEPT ![k] = "consins"] /\ UNCHANGED <<loc, resp>>
  /\ UNCHANGED <<db, hist>>

\* insert of the consumer (its own write transaction); a duplicate means that
\* somebody else recorded it since ConsGet
ConsIns(k) ==
  LET r == reqs[k]
      es == EntriesOf(r)
      e == CurEntry(k)
      adv == [loc[k] EXCEPT !.i = IF @ < Len(es) THEN @ + 1 ELSE @] IN
  /\ pc[k] = "consins"
  /\ IF e.c \notin DOMAIN db.cons THEN
        /\ Commit(k, [db EXCEPT !.cons = With(@, e.c, [project |-> EProject(r, e), user |-> EUser(r, e),
                                                     ctype |-> EType(r, e), gen |-> 0])])
        /\ loc' = [loc EXCEPT ![k] = [adv EXCEPT !.cgen = With(@, e.c, 0), !.cinc = With(@, e.c, Inc(e.c) + 1),
                                                   !.created = @ \cup {e.c}]]
        /\ pc' = [pc EXCEPT ![k] = NextCons(k)]
        /\ UNCHANGED resp
     ELSE IF r.v >= 28 /\ "F2" \in FIXES THEN
        \* repaired: a write expecting no consumer is a generation conflict
        FailAlloc(k, 409, CU23(r)) /\ UNCHANGED <<db, loc, hist>>
     ELSE
        \* original: adopt the row with its current generation (and overwrite its type)
        /\ Commit(k, [db EXCEPT !.cons[e.c].ctype = EType(r, e)])
        /\ loc' = [loc EXCEPT ![k] = [adv EXCEPT !.cgen = With(@, e.c, db.cons[e.c].gen), !.cinc = With(@, e.c, Inc(e.c))]]
        /\ pc' = [pc EXCEPT ![k] = NextCons(k)]
        /\ UNCHANGED resp

\* lookup of the providers the allocations name (read transactions, folded)
ProvRead(k) ==
  LET r == reqs[k]
      us == {it[2] : it \in Items(EntriesOf(r))} IN
  /\ pc[k] = "provread"
  /\ IF \E u \in us : u \notin Providers(db) THEN FailAlloc(k, 400, UN23(r)) /\ UNCHANGED loc
     ELSE /\ loc' = [loc EXCEPT ![k].pgen = [u \in (DOMAIN @) \cup us |-> IF u \in DOMAIN @ THEN @[u] ELSE db.rp[u].gen]]
          /\ pc' = [pc EXCEPT ![k] = IF \E n \in DOMAIN EntriesOf(r) : EntriesOf(r)[n].allocs = <<>> THEN "clearread" ELSE "main"]
          /\ UNCHANGED resp
  /\ UNCHANGED <<db, hist>>

\* an entry with empty allocations: the consumer's rows are read (and, in the
\* original code, the consumer with its *current* generation along with them)
ClearRead(k) ==
  LET r == reqs[k]
      cl == {EntriesOf(r)[n].c : n \in {m \in DOMAIN EntriesOf(r) : EntriesOf(r)[m].allocs = <<>>}} IN
  /\ pc[k] = "clearread"
  /\ loc' = [loc EXCEPT
               \* the consumers whose rows exist now are the ones that will be cleared
               ![k].rows = {c \in cl : c \in DOMAIN db.alloc /\ c \in DOMAIN db.cons},
               ![k].cgen = IF "F13" \in FIXES THEN @
                           ELSE [c \in DOMAIN @ |-> IF c \in cl /\ c \in DOMAIN db.cons /\ c \in DOMAIN db.alloc
                                                    THEN db.cons[c].gen ELSE @[c]],
               ![k].cinc = IF "F13" \in FIXES THEN @
                           ELSE [c \in DOMAIN @ |-> IF c \in cl /\ c \in DOMAIN db.cons /\ c \in DOMAIN db.alloc
                                                    THEN Inc(c) ELSE @[c]]]
  /\ pc' = [pc EXCEPT ![k] = "main"]
  /\ UNCHANGED <<db, resp, hist>>

\* consumers this request's main transaction visits (compare-and-swap on each)
Visited(k) ==
  LET es == EntriesOf(reqs[k]) IN
  {es[n].c : n \in {m \in DOMAIN es : es[m].allocs # <<>>}} \cup loc[k].rows

AllocMain(k) ==
  LET r == reqs[k]
      es == EntriesOf(r)
      vis == Visited(k)
      \* the sequential meaning with the consumer-generation comparison already
      \* done (against what ConsGet saw): feed the current generations
      \* an empty entry whose consumer had no rows when they were read does
      \* nothing at all, whatever exists by now
      keep == {n \in DOMAIN es : es[n].allocs # <<>> \/ es[n].c \in loc[k].rows}
      esk == SelectSeq([n \in DOMAIN es |-> [es[n] EXCEPT !.cgen = IF n \in keep THEN 0 ELSE -9]], LAMBDA e : e.cgen # -9)
      es2 == [n \in DOMAIN esk |-> [esk[n] EXCEPT !.cgen = IF esk[n].c \in DOMAIN db.cons THEN db.cons[esk[n].c].gen ELSE -1]]
      r2 == IF r.op = "alloc_put" THEN (IF es2 = <<>> THEN r ELSE [r EXCEPT !.cgen = es2[1].cgen]) ELSE [r EXCEPT !.entries = es2]
      \* reshaper: carried provider generations as read in ReshapeRead
      a == IF es2 = <<>> /\ r.op # "reshape" THEN [s |-> db, resp |-> Resp(204, "", NoBody)] ELSE Apply(db, r2)
      staleCons == \E c \in vis : IF c \notin DOMAIN db.cons THEN TRUE
                                   ELSE db.cons[c].gen # loc[k].cgen[c] \/ Inc(c) # loc[k].cinc[c]
      staleInv == r.op = "reshape" /\ \E n \in DOMAIN r.invs : db.rp[r.invs[n].u].gen # r.invs[n].gen
      staleProv == \E u \in DOMAIN loc[k].pgen : u \in Providers(db) /\ db.rp[u].gen # loc[k].pgen[u]
      goneProv == \E u \in DOMAIN loc[k].pgen : u \notin Providers(db)
      \* consumers created by this request that end up without allocations are
      \* reaped in the same transaction (repair of F7)
  IN
  /\ pc[k] = "main" /\ IsAllocWriter(r)
  /\ \/ /\ goneProv
        /\ FailAlloc(k, 409, CU23(r)) /\ UNCHANGED <<db, hist>>
     \/ /\ ~goneProv /\ a.resp.status >= 400 /\ ~(a.resp.status = 409 /\ a.resp.code = CU23(r) /\ staleInv)
        /\ FailAlloc(k, a.resp.status, a.resp.code) /\ UNCHANGED <<db, hist>>
     \/ /\ ~goneProv /\ (staleCons \/ staleInv)
        /\ FailAlloc(k, 409, CU23(r)) /\ UNCHANGED <<db, hist>>
     \/ \* the provider compare-and-swap is retried after re-reading; with several
        \* providers involved the retry may also exhaust (409): both are allowed
        /\ ~goneProv /\ ~staleCons /\ ~staleInv /\ staleProv /\ a.resp.status < 400
        /\ FailAlloc(k, 409, CU23(r)) /\ UNCHANGED <<db, hist>>
     \/ /\ ~goneProv /\ ~staleCons /\ ~staleInv /\ a.resp.status < 400
        /\ LET reaped == {c \in loc[k].created : c \in DOMAIN a.s.cons /\ c \notin DOMAIN a.s.alloc}
               s2 == [a.s EXCEPT !.cons = Without(@, reaped)] IN
           /\ Commit(k, s2)
           /\ Finish(k, a.resp)
  /\ UNCHANGED loc

\* failure path: remove the consumers this request recorded, one transaction
\* per consumer (delete_consumers loops over them)
Cleanup(k) ==
  /\ pc[k] = "cleanup"
  /\ \E c \in loc[k].created :
        LET gone == IF "F3" \in FIXES
                    THEN c \in DOMAIN db.cons /\ c \notin DOMAIN db.alloc
                    ELSE c \in DOMAIN db.cons
        IN /\ Commit(k, IF gone THEN [db EXCEPT !.cons = Without(@, {c})] ELSE db)
           /\ loc' = [loc EXCEPT ![k].created = @ \ {c}]
           /\ pc' = [pc EXCEPT ![k] = IF loc[k].created = {c} THEN "done" ELSE "cleanup"]
  /\ UNCHANGED resp

---------------------------------------------------------------------------
\* environment

\* the service process dies: nothing further happens for this request; the
\* transaction in flight (transactions are atomic steps here) never commits
Crash(k) ==
  /\ "crash" \in ENV
  /\ pc[k] \notin {"done", "dead"}
  /\ pc' = [pc EXCEPT ![k] = "dead"]
  /\ UNCHANGED <<db, loc, resp, hist>>

\* a non-retryable database error in the transaction about to run: it has no
\* effect; the request answers 500 after the clean-up of what it recorded
Fault(k) ==
  /\ "fault" \in ENV
  /\ pc[k] \notin {"done", "dead", "cleanup"}
  /\ ~(\E j \in Procs : resp[j].status = 500)          \* at most one fault per behaviour
  /\ resp' = [resp EXCEPT ![k] = Resp(500, UN23(reqs[k]), NoBody)]
  /\ pc' = [pc EXCEPT ![k] = IF loc[k].created = {} THEN "done" ELSE "cleanup"]
  /\ UNCHANGED <<db, loc, hist>>

Step(k) == Crash(k) \/ Fault(k) \/ Start(k) \/ DelRows(k) \/ DelCons(k) \/ ProvMain(k) \/ ReshapeRead(k) \/ ConsGet(k) \/ ConsIns(k)
           \/ ProvRead(k) \/ ClearRead(k) \/ AllocMain(k) \/ Cleanup(k)
Next == (\E k \in Procs : Step(k)) /\ UNCHANGED <<reqs, db0>>

Terminated == \A k \in Procs : pc[k] \in {"done", "dead"}

---------------------------------------------------------------------------
\* properties (evaluated in terminal states over the commit history)

Resps == [k \in Procs |-> resp[k]]
SucceededTx == {k \in Procs : resp[k].status < 300 /\ resp[k].status > 0}
EffectiveTx == {k \in SucceededTx : \E n \in DOMAIN hist : hist[n].who = k}

\* C07
SerializableTx ==
  Terminated =>
    \E ord \in Orders(EffectiveTx) :
       LET f == FoldApply(db0, reqs, Resps, ord) IN f.ok /\ f.s = db

\* C05: a generation-carrying request changed the provider only in a commit that found that generation
ProvData(s, u) == IF u \in Providers(s) THEN <<s.inv[u], s.traits[u], s.aggs[u]>> ELSE <<>>
CarriedTx(r) ==
  CASE r.op \in {"inv_put", "inv_put_all", "rp_traits_put"} -> {<<r.u, r.gen>>}
    [] r.op = "agg_put" -> IF r.v >= 19 THEN {<<r.u, r.gen>>} ELSE {}
    [] r.op = "reshape" -> {<<r.invs[n].u, r.invs[n].gen>> : n \in DOMAIN r.invs}
    [] OTHER -> {}
C05_Tx ==
  \A n \in DOMAIN hist : \A ug \in CarriedTx(reqs[hist[n].who]) :
     ProvData(hist[n].pre, ug[1]) # ProvData(hist[n].post, ug[1])
        => (ug[1] \in Providers(hist[n].pre) /\ hist[n].pre.rp[ug[1]].gen = ug[2])

\* C06: a consumer's allocations change only in a commit that found the carried generation
ConsCarriedTx(r) ==
  IF ~IsAllocWriter(r) \/ r.v < 28 THEN {}
  ELSE {<<EntriesOf(r)[n].c, EntriesOf(r)[n].cgen>> : n \in DOMAIN EntriesOf(r)}
CAllocs(s, c) == IF c \in DOMAIN s.alloc THEN s.alloc[c] ELSE <<>>
C06_Tx ==
  \A n \in DOMAIN hist : \A cg \in ConsCarriedTx(reqs[hist[n].who]) :
     CAllocs(hist[n].pre, cg[1]) # CAllocs(hist[n].post, cg[1]) =>
        IF cg[2] = -1
        THEN \/ cg[1] \notin DOMAIN hist[n].pre.cons
             \/ /\ hist[n].pre.cons[cg[1]].gen = 0 /\ CAllocs(hist[n].pre, cg[1]) = <<>>
                /\ \E m \in 1..(n - 1) : hist[m].who = hist[n].who /\ cg[1] \notin DOMAIN hist[m].pre.cons
                                          /\ cg[1] \in DOMAIN hist[m].post.cons
        ELSE cg[1] \in DOMAIN hist[n].pre.cons /\ hist[n].pre.cons[cg[1]].gen = cg[2]

\* every committed state satisfies the structural invariants
InvariantsTx == C08_Inv(db) /\ C09_Inv(db) /\ TypeOK(db)
\* ... and at the end consumers exist exactly while they hold allocations
FinalC12 == Terminated => C12_Inv(db)
\* rejected requests answered with a client error, never a 5xx
StatusesTx == \A k \in Procs : resp[k].status < 500

\* C18 (single request): whatever the crash point, the database is the one
\* before or the one after the request, apart from consumers without
\* allocations, and the structural invariants hold (InvariantsTx)
DropIdleTx(s) == [s EXCEPT !.cons = [c \in {d \in DOMAIN @ : d \in DOMAIN s.alloc} |-> @[c]]]
CrashConsistent ==
  Cardinality(Procs) = 1 =>
     \/ DropIdleTx(db) = DropIdleTx(db0)
     \/ DropIdleTx(db) = DropIdleTx(Apply(db0, reqs[1]).s)
\* C17 (single request, non-retryable fault): clean failure or exactly once
ExactlyOnceOrClean ==
  (Terminated /\ Cardinality(Procs) = 1 /\ pc[1] = "done") =>
     IF resp[1].status >= 400 THEN db = db0
     ELSE db = Apply(db0, reqs[1]).s

\* Refines: a request running alone computes exactly API!Apply
Refines ==
  (Terminated /\ Cardinality(Procs) = 1 /\ pc[1] = "done" /\ resp[1].status # 500) =>
     LET a == Apply(db0, reqs[1]) IN
     /\ resp[1].status = a.resp.status /\ resp[1].code = a.resp.code
     /\ db = a.s
=============================================================================
