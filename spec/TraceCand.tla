------------------------------ MODULE TraceCand ------------------------------
(***************************************************************************)
(* Validation of recorded GET /allocation_candidates and GET               *)
(* /resource_providers responses against the declarative reference of      *)
(* Candidates.tla.  One NDJSON line per request:                           *)
(*   [id, kind ("ac" | "list"), pre (projected database), q (abstract      *)
(*    query), status, body]                                                *)
(* ac body:   [reqs : Seq([allocs, mappings | nomap]), summaries]          *)
(* list body: [uuids : {p: true}]                                          *)
(***************************************************************************)
EXTENDS Candidates, Json, IOUtils

VARIABLES i
Log == ndJsonDeserialize(IOEnv.TRACE_FILE)

NormState(j) ==
  [rp |-> j.rp, inv |-> j.inv, alloc |-> j.alloc, cons |-> j.cons,
   traits |-> [p \in DOMAIN j.traits |-> DOMAIN j.traits[p]],
   aggs |-> [p \in DOMAIN j.aggs |-> DOMAIN j.aggs[p]],
   classes |-> j.classes, ctraits |-> DOMAIN j.ctraits]

SetSeq(q) == [n \in DOMAIN q |-> DOMAIN q[n]]
NormGroup(g) == [suffix |-> g.suffix, res |-> g.res, required |-> SetSeq(g.required),
                 forbidden |-> DOMAIN g.forbidden, member_of |-> SetSeq(g.member_of),
                 forbidden_aggs |-> DOMAIN g.forbidden_aggs, in_tree |-> g.in_tree]
NormQuery(j) == [v |-> j.v, groups |-> [n \in DOMAIN j.groups |-> NormGroup(j.groups[n])],
                 policy |-> j.policy, root_required |-> DOMAIN j.root_required,
                 root_forbidden |-> DOMAIN j.root_forbidden,
                 same_subtree |-> SetSeq(j.same_subtree), limit |-> j.limit]
NormFilter(j) == [name |-> j.name, has_name |-> j.has_name, uuid |-> j.uuid, in_tree |-> j.in_tree,
                  member_of |-> SetSeq(j.member_of), forbidden_aggs |-> DOMAIN j.forbidden_aggs,
                  required |-> SetSeq(j.required), forbidden |-> DOMAIN j.forbidden,
                  resources |-> j.resources]

HasMap(r) == "mappings" \in DOMAIN r
ObsResult(r) == [allocs |-> r.allocs,
                 mappings |-> IF HasMap(r) THEN [sfx \in DOMAIN r.mappings |-> DOMAIN r.mappings[sfx]] ELSE <<>>]
\* below 1.34 the response has no mappings: compare allocations only
Strip(res) == [allocs |-> res.allocs, mappings |-> <<>>]

AcVerdict(ln) ==
  LET s == NormState(ln.pre)
      q == NormQuery(ln.q)
      bad == QueryBad(s, q)
  IN
  IF ln.status # 200 THEN (IF bad /\ ln.status = 400 THEN {} ELSE {"C03_status"})
  ELSE IF bad THEN {"C03_status"}
  ELSE
  LET obsSeq == [n \in DOMAIN ln.body.reqs |-> ObsResult(ln.body.reqs[n])]
      obs == {obsSeq[n] : n \in DOMAIN obsSeq}
      withMap == q.v >= 34
      must == IF withMap THEN CandMust(s, q) ELSE {Strip(r) : r \in CandMust(s, q)}
      may  == IF withMap THEN CandMay(s, q) ELSE {Strip(r) : r \in CandMay(s, q)}
      full == IF q.limit = -1 THEN obs ELSE obs     \* with a limit only the subset law applies
      provs == UNION {DOMAIN r.allocs : r \in obs}
  IN
     (IF obs \subseteq may THEN {} ELSE {"C03_spurious"})
\cup (IF q.limit # -1 \/ must \subseteq obs THEN {} ELSE {"C03_missing"})
\cup (IF \A r \in obs : PlacesExactly(q, r) THEN {} ELSE {"C02_amounts"})
\* every returned request, written unchanged for a new consumer, is accepted by Apply
\cup (IF \A r \in obs : (\A p \in DOMAIN r.allocs : p \in Providers(s)) => Apply(s, ClaimReq(r)).resp.status = 204
      THEN {} ELSE {"C02_unclaimable"})
\cup (IF \A r \in obs : \A p \in DOMAIN r.allocs : p \in Providers(s) THEN {} ELSE {"C02_unknown_provider"})
\cup (IF ~withMap \/ \A r \in obs : MappingsOK(q, r) THEN {} ELSE {"C02_mappings"})
\cup (IF \A p \in provs : p \in DOMAIN ln.body.summaries
            /\ ln.body.summaries[p] = SummaryOf(s, p, q.v, QueryClasses(q))
      THEN {} ELSE {"C02_summaries"})
\cup (IF \A p \in DOMAIN ln.body.summaries : p \in Providers(s)
            /\ ln.body.summaries[p] = SummaryOf(s, p, q.v, QueryClasses(q))
      THEN {} ELSE {"C02_summaries_extra"})
\cup (IF ~withMap \/ Len(obsSeq) = Cardinality(obs) THEN {} ELSE {"C20_duplicates"})
\cup (IF q.limit = -1 \/ Len(obsSeq) <= q.limit THEN {} ELSE {"C20_over_limit"})
\cup (IF obs \ must # {} THEN {"INFO_between_must_and_may"} ELSE {})

\* the filter without the names the database does not know
KnownPart(s, f) ==
  [f EXCEPT !.resources = [k \in {x \in DOMAIN @ : ClassKnown(s, x)} |-> @[k]],
            !.required = [n \in DOMAIN @ |-> {t \in @[n] : TraitKnown(s, t)}],
            !.forbidden = {t \in @ : TraitKnown(s, t)}]

ListVerdict(ln) ==
  LET s == NormState(ln.pre)
      f == NormFilter(ln.q)
  IN IF ListBad(s, f)
     THEN \* 400; where the other filters already match nothing the statement's
          \* "yields an empty list" applies as well and either answer is admitted
          (IF ln.status = 400 \/ (ln.status = 200 /\ DOMAIN ln.body.uuids = {}
                                  /\ \E g \in {KnownPart(s, f)} :
                                        ListProviders(s, [g EXCEPT !.resources = <<>>]) = {}
                                        \/ (\E n \in DOMAIN g.required : g.required[n] = {}))
           THEN {} ELSE {"C13_status"})
     ELSE IF ln.status # 200 THEN {"C13_status"}
     ELSE LET want == ListProviders(s, f)
              got == DOMAIN ln.body.uuids
          IN (IF got \subseteq want THEN {} ELSE {"C13_spurious"})
             \cup (IF want \subseteq got THEN {} ELSE {"C13_missing"})

\* C20: a limited response against the unlimited one of the same request
LimitVerdict(ln) ==
  LET q == NormQuery(ln.q)
      withMap == q.v >= 34
      seqOf(b) == [n \in DOMAIN b.reqs |-> ObsResult(b.reqs[n])]
      lim == seqOf(ln.body)
      full == seqOf(ln.full)
      again == seqOf(ln.again)
      fullSet == {full[n] : n \in DOMAIN full}
      limSet == {lim[n] : n \in DOMAIN lim}
      M == IF withMap THEN Cardinality(fullSet) ELSE Len(full)
      provs == UNION {DOMAIN r.allocs : r \in limSet}
  IN
  IF ln.status # 200 THEN {"C20_status"} ELSE
     (IF Len(lim) = (IF q.limit < M THEN q.limit ELSE M) THEN {} ELSE {"C20_count"})
\cup (IF limSet \subseteq fullSet THEN {} ELSE {"C20_not_subset"})
\cup (IF ~withMap \/ Cardinality(limSet) = Len(lim) THEN {} ELSE {"C20_duplicates"})
\cup (IF \A p \in provs : p \in DOMAIN ln.body.summaries /\ ln.body.summaries[p] = ln.full.summaries[p]
      THEN {} ELSE {"C20_summaries"})
\cup (IF ln.randomize \/ lim = again THEN {} ELSE {"C20_not_deterministic"})
\cup (IF ln.randomize \/ q.limit < M \/ lim = full THEN {} ELSE {"C20_not_deterministic_full"})

Init == i = 1
Next == /\ i <= Len(Log)
        /\ PrintT(<<"CV", Log[i].id, IF Log[i].kind = "ac" THEN AcVerdict(Log[i]) ELSE IF Log[i].kind = "limit" THEN LimitVerdict(Log[i]) ELSE ListVerdict(Log[i])>>)
        /\ i' = i + 1
        /\ TLCSet(1, i)
Spec == Init /\ [][Next]_i
AllConsumed == TLCGet(1) = Len(Log)
ASSUME TLCSet(1, 0)
=============================================================================
