------------------------------- MODULE Data -------------------------------
(***************************************************************************)
(* Abstract database of OpenStack Placement and the operators derived      *)
(* from it.  A state is a record                                           *)
(*                                                                         *)
(*   rp      : [provider -> [name, parent ("" = none), root, gen]]         *)
(*   inv     : [provider -> [class -> inventory record]]   (total on rp)   *)
(*   alloc   : [consumer -> [provider -> [class -> used > 0]]]             *)
(*   cons    : [consumer -> [project, user, ctype ("unknown" = NULL), gen]]*)
(*   traits  : [provider -> SUBSET trait name]             (total on rp)   *)
(*   aggs    : [provider -> SUBSET aggregate uuid]         (total on rp)   *)
(*   classes : [custom class name -> id]                                   *)
(*   ctraits : SUBSET custom trait name                                    *)
(*                                                                         *)
(* It is the image of the twelve SQL tables under pv/project.py; the       *)
(* "aux" residue (projects, users, consumer types, unattached aggregates)  *)
(* is deliberately not part of it.  Allocation ratios are exact rationals  *)
(* num/den.  Everything is string keyed so that the very same values are   *)
(* produced by Json!JsonDeserialize from a recorded trace.                 *)
(***************************************************************************)
EXTENDS Integers, Sequences, FiniteSets, FiniteSetsExt, SequencesExt, Functions, TLC, IOUtils, Json

NoParent == ""
UnknownType == "unknown"

\* The part of the standard (os-resource-classes / os-traits) vocabulary the
\* models and drivers draw from; every other standard name behaves alike.
\* Trace validation of executions that use other names (the repository's own
\* functional test corpus) extends the vocabulary through a JSON file named
\* by the environment variable PV_VOCAB:
\*   std_classes, std_traits : the installed os-resource-classes / os-traits
\*   custom_classes, custom_traits : the names of the run that NameRules.tla
\*                                    judged legal (TLC pre-pass)
\*   prefixes : [prefix |-> names of the run that start with it]
\* Without the variable the vocabulary is the base one.
Vocab == IF "PV_VOCAB" \in DOMAIN IOEnv
         THEN JsonDeserialize(IOEnv.PV_VOCAB)
         ELSE [std_classes |-> <<>>, std_traits |-> <<>>, custom_classes |-> <<>>, custom_traits |-> <<>>,
               prefixes |-> <<>>]
VocabSet(q) == {q[i] : i \in DOMAIN q}
StdClasses == {"VCPU", "MEMORY_MB", "DISK_GB", "PCI_DEVICE", "SRIOV_NET_VF", "VGPU"} \cup VocabSet(Vocab.std_classes)
StdTraits  == {"HW_CPU_X86_AVX", "HW_CPU_X86_AVX2", "STORAGE_DISK_SSD",
               "MISC_SHARES_VIA_AGGREGATE", "COMPUTE_VOLUME_MULTI_ATTACH"} \cup VocabSet(Vocab.std_traits)
SharingTrait == "MISC_SHARES_VIA_AGGREGATE"
\* Custom names (CUSTOM_ + [A-Z0-9_]+, <= 255 chars) the models draw from.
CustomClassPool == {"CUSTOM_RC1", "CUSTOM_RC2", "CUSTOM_RC3", "CUSTOM_RC4"} \cup VocabSet(Vocab.custom_classes)
CustomTraitPool == {"CUSTOM_T1", "CUSTOM_T2", "CUSTOM_T3", "CUSTOM_T4"} \cup VocabSet(Vocab.custom_traits)
\* Syntactically well formed class/trait names (pattern [A-Z0-9_]+) that are
\* neither standard nor creatable as custom ones.
BogusUpperNames == {"NOSUCH", "NOSUCH_TOO"}
\* Names rejected by the CUSTOM_ pattern of PUT /traits, POST/PUT /resource_classes.
MinCustomId == 10000

EmptyState ==
  [rp |-> <<>>, inv |-> <<>>, alloc |-> <<>>, cons |-> <<>>, traits |-> <<>>,
   aggs |-> <<>>, classes |-> <<>>, ctraits |-> {}]

---------------------------------------------------------------------------
\* generic function helpers
Without(f, K)  == [x \in (DOMAIN f) \ K |-> f[x]]
With(f, k, v)  == [x \in (DOMAIN f) \cup {k} |-> IF x = k THEN v ELSE f[x]]
Get(f, k, d)   == IF k \in DOMAIN f THEN f[k] ELSE d
Fn(S, Op(_))   == [x \in S |-> Op(x)]
SeqRange(q)    == {q[i] : i \in DOMAIN q}
NoDup(q)       == \A i, j \in DOMAIN q : q[i] = q[j] => i = j

---------------------------------------------------------------------------
\* providers / forest
Providers(s)       == DOMAIN s.rp
Parent(s, p)       == s.rp[p].parent
Children(s, p)     == {q \in Providers(s) : s.rp[q].parent = p}
RECURSIVE AncestorsUpTo(_, _, _)
\* proper ancestors of p following parent links, at most n steps (n bounds the
\* walk so that the operator is total even on a corrupt, cyclic hierarchy).
AncestorsUpTo(s, p, n) ==
  IF n = 0 \/ p \notin Providers(s) \/ s.rp[p].parent = NoParent THEN {}
  ELSE {s.rp[p].parent} \cup AncestorsUpTo(s, s.rp[p].parent, n - 1)
Ancestors(s, p)    == AncestorsUpTo(s, p, Cardinality(Providers(s)))
AncOrSelf(s, p)    == {p} \cup Ancestors(s, p)
Subtree(s, p)      == {q \in Providers(s) : p \in AncOrSelf(s, q)}
\* root computed by following parents (the stored, denormalised root is rp[p].root)
TrueRoot(s, p)     == LET top == {a \in AncOrSelf(s, p) : a \in Providers(s) /\ s.rp[a].parent = NoParent}
                      IN IF top = {} THEN "" ELSE CHOOSE a \in top : TRUE
Tree(s, r)         == {q \in Providers(s) : s.rp[q].root = r}
Roots(s)           == {s.rp[p].root : p \in Providers(s)}

---------------------------------------------------------------------------
\* inventories, usage, capacity
HasInv(s, p, k)    == p \in DOMAIN s.inv /\ k \in DOMAIN s.inv[p]
Consumers(s)       == DOMAIN s.alloc
AllocOf(s, c, p, k) ==
  IF c \in DOMAIN s.alloc /\ p \in DOMAIN s.alloc[c] /\ k \in DOMAIN s.alloc[c][p]
  THEN s.alloc[c][p][k] ELSE 0
Used(s, p, k)      == MapThenSumSet(LAMBDA c : AllocOf(s, c, p, k), DOMAIN s.alloc)
\* classes for which anybody holds an allocation on p
AllocClasses(s, p) == UNION {DOMAIN s.alloc[c][p] : c \in {d \in DOMAIN s.alloc : p \in DOMAIN s.alloc[d]}}
ProvidersOfCons(s, c) == IF c \in DOMAIN s.alloc THEN DOMAIN s.alloc[c] ELSE {}
ConsumersOn(s, p)  == {c \in DOMAIN s.alloc : p \in DOMAIN s.alloc[c]}
HasAllocs(s, p)    == ConsumersOn(s, p) # {}

\* integer division truncating toward zero (python's int() of a float)
TruncDiv(a, b)     == IF a >= 0 THEN a \div b ELSE -((-a) \div b)
\* numerator of the exact rational capacity (total - reserved) * num / den
CapNum(i)          == (i.total - i.reserved) * i.num
CapInt(i)          == TruncDiv(CapNum(i), i.den)
\* "u units fit under the capacity of inventory i"  (exact rational comparison)
\* u * den <= CapNum, written with floor division so that no product of an amount leaves TLC's integers
Fits(i, u)         == u <= CapNum(i) \div i.den
UnitsOK(i, a)      == a >= i.min_unit /\ a <= i.max_unit /\ a % i.step_size = 0
Over(s, p, k)      == HasInv(s, p, k) /\ ~Fits(s.inv[p][k], Used(s, p, k))
\* room for a further amount a on (p, k), as used by listing and candidates
HasRoom(s, p, k, a) == HasInv(s, p, k) /\ UnitsOK(s.inv[p][k], a)
                       /\ Fits(s.inv[p][k], Used(s, p, k) + a)

ClassKnown(s, k)   == k \in StdClasses \/ k \in DOMAIN s.classes
TraitKnown(s, t)   == t \in StdTraits \/ t \in s.ctraits
IsSharing(s, p)    == SharingTrait \in s.traits[p]

---------------------------------------------------------------------------
\* State invariants (each is a predicate on one state so that it can be used
\* both as a TLC invariant and as a monitor on a recorded state).

TypeOK(s) ==
  /\ DOMAIN s.inv = Providers(s) /\ DOMAIN s.traits = Providers(s) /\ DOMAIN s.aggs = Providers(s)
  /\ \A p \in Providers(s) : s.rp[p].gen \in Nat
  /\ \A c \in DOMAIN s.cons : s.cons[c].gen \in Nat
  /\ \A c \in DOMAIN s.alloc : \A p \in DOMAIN s.alloc[c] : \A k \in DOMAIN s.alloc[c][p] :
        s.alloc[c][p][k] > 0

\* C09
Forest(s) ==
  /\ \A p \in Providers(s) : s.rp[p].parent # NoParent => s.rp[p].parent \in Providers(s)
  /\ \A p \in Providers(s) : p \notin Ancestors(s, p)
RootCorrect(s) == \A p \in Providers(s) : s.rp[p].root = TrueRoot(s, p)

\* C08
RefIntegrity(s) ==
  /\ \A c \in DOMAIN s.alloc : \A p \in DOMAIN s.alloc[c] :
        /\ p \in Providers(s)
        /\ \A k \in DOMAIN s.alloc[c][p] : HasInv(s, p, k)
  /\ \A c \in DOMAIN s.alloc : (\E p \in DOMAIN s.alloc[c] : DOMAIN s.alloc[c][p] # {}) => c \in DOMAIN s.cons
  /\ \A p \in DOMAIN s.inv : p \in Providers(s) /\ \A k \in DOMAIN s.inv[p] : ClassKnown(s, k)
  /\ \A p \in DOMAIN s.traits : p \in Providers(s) /\ \A t \in s.traits[p] : TraitKnown(s, t)
  /\ \A p \in DOMAIN s.aggs : p \in Providers(s)

\* C12
ConsumerIffAllocs(s) ==
  \A c \in (DOMAIN s.cons) \cup (DOMAIN s.alloc) :
     (c \in DOMAIN s.cons) <=>
     (c \in DOMAIN s.alloc /\ \E p \in DOMAIN s.alloc[c] : DOMAIN s.alloc[c][p] # {})

\* C19 (custom part)
ClassIdsOK(s) ==
  /\ \A k \in DOMAIN s.classes : s.classes[k] >= MinCustomId
  /\ \A j, k \in DOMAIN s.classes : s.classes[j] = s.classes[k] => j = k

\* C01 (state part): nothing is over-committed
NoOvercommit(s) == \A p \in Providers(s) : \A k \in DOMAIN s.inv[p] : ~Over(s, p, k)

=============================================================================
