SPECIFICATION RSpec
CONSTANT FIXES <- AllFixes
CONSTANT ENV <- CrashFault
INVARIANT Inv_Single
INVARIANT Inv_C05
INVARIANT Inv_C06
INVARIANT Report
CHECK_DEADLOCK FALSE
