SPECIFICATION Spec
INVARIANT MustSubMay
INVARIANT Claimable
INVARIANT Structural
CHECK_DEADLOCK FALSE
