SEQ_NOTE = ('Trusted base: TLC, the Json community module, the projection pv/project.py (table dump -> abstract state), '
            'the renderer/parser pv/reqs.py, SQLite standing in for the production DBMS. The exhaustive TLC run covers the '
            'small constants of the listed MC_*.cfg only; beyond them the assurance is that every recorded step of every '
            'generated/scripted history is a step of the specification and satisfies the property monitors.')

def seq(text, design_ref, technique='TLC model checking of API.tla (MC_API) + TLC trace validation of recorded executions (TraceAPI.tla)'):
    return dict(engine='seq', category='model_checking', text=text, design_ref=design_ref,
                note=SEQ_NOTE, technique=technique)

CLAIMED = {
 'C01': seq('TLC exhausts the allocation sub-model (2 providers, 2 classes, 2 consumers, 3 inventory records, amounts 1-3, every choice of initial inventories) checking C01_Step on every transition; boundary-biased random and scripted histories are executed on the real WSGI stack and every step is validated by TLC against API!Apply with C01_Step evaluated on the observed step.', '7.1'),
 'C04': seq('Every rejected request of the TLC model and of every recorded history must leave the full abstract state (all tables except the aux residue) unchanged: C04_Step as an action property of MC_API and as a monitor on each recorded step.', '7.4'),
 'C08': seq('RefIntegrity as TLC invariant and C08_DeleteRules as action property on the forest, names and allocation sub-models; on recorded histories the projection keeps dangling references visible and both are evaluated after every request.', '7.8'),
 'C09': seq('TLC exhausts every labelled forest over 4 providers under create/update/delete at versions on both sides of 1.14 and 1.37 (Forest, RootCorrect, C09_Rejects); histories over 8 providers biased to subtree moves are validated step by step with the stored root pointer compared.', '7.9'),
 'C10': seq('C10_Step (must-bump / never-bump / never-decrease / returned generation equals stored) as action property of the TLC sub-models and as monitor on every recorded step; each write is followed by the reads that expose its generation.', '7.10'),
 'C11': seq('API!Apply is the documented meaning; every recorded step over all modelled routes, versions 1.0-1.39, valid and invalid arguments, must equal Apply in status, error code, abstract body and complete next state.', '7.11'),
 'C12': seq('ConsumerIffAllocs as TLC invariant, C12_Step as action property; histories over 4 consumers at the four version bands under default and custom incomplete_consumer_* configuration, validated step by step.', '7.12'),
 'C19': seq('C19_Inv / C19_Step on the names sub-model and on recorded histories of class/trait creation, rename and deletion; the projection compares the real os_traits / os_resource_classes vocabularies with the tables after every request.', '7.19'),
}
NOT_CLAIMED = {}
ENGINES = [
 {'name': 'seq', 'path': 'pv/seqengine.py', 'serves_properties': sorted(CLAIMED),
  'kind_free_text': 'TLA+ specification spec/API.tla (+Data, Props); TLC model checking of spec/MC_API.tla; TLC trace validation (spec/TraceAPI.tla) of executions recorded from the real WSGI application'},
]
NOTES = 'See DESIGN.md. ./check <id> --tier quick|thorough [--seed N] [--replay FILE]; exit 2 = machinery failure.'
