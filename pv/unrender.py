"""HTTP exchange -> abstract request of spec/API.tla (the inverse of
reqs.render), for executions that were not produced by our own drivers (the
repository's functional test corpus).

`abstract(method, path_qs, headers, body)` returns the abstract request when
the exchange lies inside the alphabet `API!Apply` is defined on - a caller with
the admin role, a well-formed version header, a body that passes the JSON
schema of the route at that version with values in the modelled ranges -
and None otherwise.  An exchange outside the alphabet is not guessed at: it is
judged by the generic rules only (a refused request and a read change
nothing; the stored state keeps the structural invariants)."""
import json
import re
from fractions import Fraction
from urllib.parse import parse_qsl, unquote, urlsplit

from pv import names

N = names.to_name
MAXINT = 2147483647
UUID_RE = re.compile(r'^[0-9a-f]{8}-[0-9a-f]{4}-[0-9a-f]{4}-[0-9a-f]{4}-[0-9a-f]{12}\Z')
NAME_RE = re.compile(r'^[A-Z0-9_]+\Z')
VER_RE = re.compile(r'^placement (\d+)\.(\d+)\Z')


class Outside(Exception):
    """The exchange is outside the alphabet."""


def _need(cond, why=''):
    if not cond:
        raise Outside(why)


def version(headers):
    h = {k.lower(): v for k, v in headers.items()}
    raw = h.get('openstack-api-version')
    if raw is None:
        return 0
    raw = raw.strip()
    if raw == 'placement latest':
        return 39
    m = VER_RE.match(raw)
    _need(m, 'version header')
    _need(m.group(1) == '1' and 0 <= int(m.group(2)) <= 39, 'version range')
    return int(m.group(2))


def _uuid(x):
    _need(isinstance(x, str) and UUID_RE.match(x), 'uuid %r' % (x,))
    return N(x)


def _int(x, lo, hi=MAXINT):
    _need(isinstance(x, int) and not isinstance(x, bool) and lo <= x <= hi, 'int %r' % (x,))
    return x


def _only(d, allowed, required=()):
    _need(isinstance(d, dict), 'object expected')
    _need(set(d) <= set(allowed), 'keys %r' % (sorted(set(d) - set(allowed)),))
    _need(all(k in d for k in required), 'required keys')


def _inv(d, with_class=False, with_gen=False):
    allowed = ['total', 'reserved', 'min_unit', 'max_unit', 'step_size', 'allocation_ratio']
    if with_class:
        allowed.append('resource_class')
    if with_gen:
        allowed.append('resource_provider_generation')
    _only(d, allowed, ['total'])
    total = _int(d['total'], 1)
    reserved = _int(d.get('reserved', 0), 0)
    mn = _int(d.get('min_unit', 1), 1)
    mx = _int(d.get('max_unit', MAXINT), 1)
    step = _int(d.get('step_size', 1), 1)
    ratio = d.get('allocation_ratio', 1.0)
    _need(isinstance(ratio, (int, float)) and not isinstance(ratio, bool) and ratio > 0, 'ratio')
    f = Fraction(ratio)
    _need(f.denominator <= 1024 and f.numerator <= 1 << 20, 'ratio not modelled')
    _need(total * f.numerator < (1 << 31), 'capacity product')
    return {'total': total, 'reserved': reserved, 'min_unit': mn, 'max_unit': mx, 'step_size': step,
            'num': f.numerator, 'den': f.denominator}


def _class(x):
    _need(isinstance(x, str) and NAME_RE.match(x) and len(x) <= 255, 'class name %r' % (x,))
    return x


def _resources(d):
    _need(isinstance(d, dict) and len(d) >= 1, 'resources')
    return [{'rc': _class(k), 'amt': _int(a, 1)} for k, a in d.items()]


def _alloc_dict(d, v, allow_empty):
    _need(isinstance(d, dict), 'allocations object')
    _need(allow_empty or len(d) >= 1, 'empty allocations')
    out = []
    for u, x in d.items():
        _only(x, ['resources', 'generation'] if v >= 12 else ['resources'], ['resources'])
        if 'generation' in x:
            _int(x['generation'], 0)
        out.append({'u': _uuid(u), 'res': _resources(x['resources'])})
    return out


def _idstr(x):
    _need(isinstance(x, str) and 1 <= len(x) <= 255 and x.isascii() and x.isprintable(), 'id %r' % (x,))
    return x


def _ctype(x):
    _need(isinstance(x, str) and NAME_RE.match(x) and len(x) <= 255, 'consumer type')
    return x


def _entry(c, d, v, for_post):
    """One consumer's part of POST /allocations / the reshaper, or the body of PUT."""
    allowed = ['allocations', 'project_id', 'user_id']
    required = ['allocations', 'project_id', 'user_id']
    if v >= 28:
        allowed.append('consumer_generation')
        required.append('consumer_generation')
    if v >= 38:
        allowed.append('consumer_type')
        required.append('consumer_type')
    _only(d, allowed, required)          # "mappings" (1.34) is outside the alphabet
    cgen = -1
    if v >= 28:
        cg = d['consumer_generation']
        cgen = -1 if cg is None else _int(cg, 0)
    return {'c': c, 'project': _idstr(d['project_id']), 'user': _idstr(d['user_id']), 'cgen': cgen,
            'ctype': _ctype(d['consumer_type']) if v >= 38 else 'INSTANCE',
            'allocs': _alloc_dict(d['allocations'], v, allow_empty=(for_post or v >= 28))}


def _json_body(headers, body):
    h = {k.lower(): v for k, v in headers.items()}
    _need((h.get('content-type') or '').split(';')[0].strip() == 'application/json', 'content type')
    try:
        return json.loads(body)
    except Exception:
        raise Outside('body is not JSON')


def abstract(method, path_qs, headers, body, env, policy='default'):
    """Abstract request or None.  `policy`: the policy in force - "default"
    (Apply describes a caller with the admin role; the reshaper needs the
    service role), "open" (every rule allows everybody) or anything else
    (outside the alphabet)."""
    try:
        return _abstract(method, path_qs, headers, body, env, policy)
    except Outside:
        return None


def caller_roles(headers):
    """Roles as the noauth2 middleware derives them."""
    h = {k.lower(): v for k, v in headers.items()}
    _need('x-auth-token' in h, 'no credentials')
    # system-scoped tokens are not one of the caller classes of Surface.tla
    _need('openstack-system-scope' not in h, 'system scope')
    if 'x-roles' in h:
        return set(x.strip() for x in h['x-roles'].split(',') if x.strip())
    return {'admin'} if h['x-auth-token'] == 'admin' else set()


def _abstract(method, path_qs, headers, body, env, policy='default'):
    h = {k.lower(): v for k, v in headers.items()}
    roles = caller_roles(headers)
    _need(policy in ('default', 'open'), 'policy')
    if policy == 'default':
        _need('admin' in roles, 'caller')
    else:
        roles = roles | {'admin', 'service'}
    _need('application/json' in h.get('accept', 'application/json') or h.get('accept') in (None, '*/*'), 'accept')
    v = version(headers)
    parts = urlsplit(path_qs)
    path, query = parts.path, parts.query
    _need('%' not in path, 'escaped path')
    seg = [x for x in path.split('/')]
    _need(seg[0] == '', 'path')
    seg = seg[1:]
    nobody = body in (None, b'', '')

    def J():
        return _json_body(headers, body)
    if seg == ['']:
        _need(method == 'GET' and not query)
        return {'op': 'root', 'v': v}
    if seg[0] == 'resource_providers':
        if len(seg) == 1:
            _need(method == 'POST' and not query)
            b = J()
            _only(b, ['name', 'uuid', 'parent_provider_uuid'], ['name', 'uuid'])
            _need(isinstance(b['name'], str) and 1 <= len(b['name']) <= 200 and b['name'].isascii(), 'name')
            if 'parent_provider_uuid' not in b:
                parent = ''
            elif b['parent_provider_uuid'] is None:
                parent = 'null'
            else:
                parent = _uuid(b['parent_provider_uuid'])
            return {'op': 'rp_create', 'v': v, 'u': _uuid(b['uuid']), 'name': b['name'], 'parent': parent}
        u = _uuid(seg[1])
        if len(seg) == 2:
            _need(not query)
            if method == 'GET':
                return {'op': 'rp_get', 'v': v, 'u': u}
            if method == 'DELETE':
                return {'op': 'rp_delete', 'v': v, 'u': u}
            _need(method == 'PUT')
            b = J()
            _only(b, ['name', 'parent_provider_uuid'], ['name'])
            _need(isinstance(b['name'], str) and 1 <= len(b['name']) <= 200 and b['name'].isascii(), 'name')
            if 'parent_provider_uuid' not in b:
                parent = ''
            elif b['parent_provider_uuid'] is None:
                parent = 'null'
            else:
                parent = _uuid(b['parent_provider_uuid'])
            return {'op': 'rp_update', 'v': v, 'u': u, 'name': b['name'], 'parent': parent}
        _need(not query)
        sub = seg[2]
        if sub == 'inventories' and len(seg) == 3:
            if method == 'GET':
                return {'op': 'inv_list', 'v': v, 'u': u}
            if method == 'DELETE':
                return {'op': 'inv_del_all', 'v': v, 'u': u}
            b = J()
            if method == 'POST':
                _need(isinstance(b, dict) and 'resource_class' in b)
                return {'op': 'inv_post', 'v': v, 'u': u, 'rc': _class(b['resource_class']),
                        'inv': _inv(b, with_class=True)}
            _need(method == 'PUT')
            _only(b, ['resource_provider_generation', 'inventories'], ['resource_provider_generation', 'inventories'])
            _need(isinstance(b['inventories'], dict))
            return {'op': 'inv_put_all', 'v': v, 'u': u, 'gen': _int(b['resource_provider_generation'], 0),
                    'invs': [{'rc': _class(k), 'inv': _inv(x)} for k, x in b['inventories'].items()]}
        if sub == 'inventories' and len(seg) == 4:
            rc = _class(seg[3])
            if method == 'GET':
                return {'op': 'inv_get', 'v': v, 'u': u, 'rc': rc}
            if method == 'DELETE':
                return {'op': 'inv_del', 'v': v, 'u': u, 'rc': rc}
            _need(method == 'PUT')
            b = J()
            _need(isinstance(b, dict) and 'resource_provider_generation' in b)
            return {'op': 'inv_put', 'v': v, 'u': u, 'rc': rc, 'gen': _int(b['resource_provider_generation'], 0),
                    'inv': _inv(b, with_gen=True)}
        _need(len(seg) == 3)
        if sub == 'usages':
            _need(method == 'GET')
            return {'op': 'rp_usages', 'v': v, 'u': u}
        if sub == 'allocations':
            _need(method == 'GET')
            return {'op': 'rp_allocs', 'v': v, 'u': u}
        if sub == 'aggregates':
            if method == 'GET':
                return {'op': 'agg_get', 'v': v, 'u': u}
            _need(method == 'PUT')
            b = J()
            if v >= 19:
                _only(b, ['aggregates', 'resource_provider_generation'], ['aggregates', 'resource_provider_generation'])
                aggs, gen = b['aggregates'], _int(b['resource_provider_generation'], 0)
            else:
                aggs, gen = b, -1
            _need(isinstance(aggs, list))
            return {'op': 'agg_put', 'v': v, 'u': u, 'gen': gen, 'aggs': [_uuid(a) for a in aggs]}
        if sub == 'traits':
            if method == 'GET':
                return {'op': 'rp_traits_get', 'v': v, 'u': u}
            if method == 'DELETE':
                return {'op': 'rp_traits_del', 'v': v, 'u': u}
            _need(method == 'PUT')
            b = J()
            _only(b, ['traits', 'resource_provider_generation'], ['traits', 'resource_provider_generation'])
            _need(isinstance(b['traits'], list) and all(isinstance(t, str) and NAME_RE.match(t) and len(t) <= 255
                                                        for t in b['traits']))
            _need(len(set(b['traits'])) == len(b['traits']))
            return {'op': 'rp_traits_put', 'v': v, 'u': u, 'gen': _int(b['resource_provider_generation'], 0),
                    'traits': list(b['traits'])}
        raise Outside('route')
    if seg[0] == 'traits':
        if len(seg) == 1:
            _need(method == 'GET')
            q = parse_qsl(query, keep_blank_values=True)
            _need(len({k for k, _ in q}) == len(q) and all(k in ('name', 'associated') for k, _ in q))
            q = dict(q)
            r = {'op': 'traits_list', 'v': v, 'fkind': '', 'names': [], 'prefix': '', 'assoc': ''}
            if 'name' in q:
                if q['name'].startswith('in:'):
                    r['fkind'] = 'in'
                    r['names'] = q['name'][3:].split(',')
                    _need(all(NAME_RE.match(n) for n in r['names']))
                elif q['name'].startswith('startswith:'):
                    r['fkind'] = 'startswith'
                    r['prefix'] = q['name'][len('startswith:'):]
                    _need(NAME_RE.match(r['prefix']))
                else:
                    raise Outside('name filter')
            if 'associated' in q:
                _need(q['associated'] in ('true', 'false'))
                r['assoc'] = q['associated']
            return r
        _need(len(seg) == 2 and not query and nobody)
        name = seg[1]
        _need(name.isascii() and name.isprintable() and name != '', 'trait name')
        op = {'PUT': 'trait_put', 'GET': 'trait_get', 'DELETE': 'trait_del'}.get(method)
        _need(op)
        return {'op': op, 'v': v, 'name': name}
    if seg[0] == 'resource_classes':
        if len(seg) == 1:
            _need(not query)
            if method == 'GET':
                return {'op': 'rc_list', 'v': v}
            _need(method == 'POST')
            b = J()
            _only(b, ['name'], ['name'])
            _need(isinstance(b['name'], str) and b['name'].isascii() and b['name'].isprintable() and b['name'] != '')
            return {'op': 'rc_post', 'v': v, 'name': b['name']}
        _need(len(seg) == 2 and not query)
        name = seg[1]
        _need(name.isascii() and name.isprintable() and name != '', 'class name')
        if method == 'GET':
            return {'op': 'rc_get', 'v': v, 'name': name}
        if method == 'DELETE':
            return {'op': 'rc_del', 'v': v, 'name': name}
        _need(method == 'PUT')
        if 2 <= v <= 6:
            b = J()
            _only(b, ['name'], ['name'])
            _need(isinstance(b['name'], str) and b['name'].isascii() and b['name'].isprintable() and b['name'] != '')
            return {'op': 'rc_put', 'v': v, 'name': name, 'newname': b['name']}
        _need(nobody or v < 2)
        return {'op': 'rc_put', 'v': v, 'name': name, 'newname': ''}
    if seg[0] == 'allocations':
        if len(seg) == 1:
            _need(method == 'POST' and not query and v >= 13)
            b = J()
            _need(isinstance(b, dict) and len(b) >= 1)
            ents = []
            for c, d in b.items():
                ents.append(_entry(_uuid(c), d, v, True))
                _need(v >= 28 or ents[-1]['allocs'] != [] or True)
            return {'op': 'alloc_post', 'v': v, 'entries': ents, 'env': dict(env)}
        _need(len(seg) == 2 and not query)
        c = _uuid(seg[1])
        if method == 'GET':
            return {'op': 'alloc_get', 'v': v, 'c': c}
        if method == 'DELETE':
            return {'op': 'alloc_del', 'v': v, 'c': c}
        _need(method == 'PUT')
        b = J()
        _need(isinstance(b, dict) and 'allocations' in b)
        if v < 12:
            allowed = ['allocations'] + (['project_id', 'user_id'] if v >= 8 else [])
            _only(b, allowed, allowed)
            _need(isinstance(b['allocations'], list) and len(b['allocations']) >= 1)
            allocs = []
            for x in b['allocations']:
                _only(x, ['resource_provider', 'resources'], ['resource_provider', 'resources'])
                _only(x['resource_provider'], ['uuid'], ['uuid'])
                allocs.append({'u': _uuid(x['resource_provider']['uuid']), 'res': _resources(x['resources'])})
            _need(len({a['u'] for a in allocs}) == len(allocs))
            return {'op': 'alloc_put', 'v': v, 'c': c, 'allocs': allocs, 'cgen': -1, 'ctype': 'INSTANCE',
                    'project': _idstr(b['project_id']) if v >= 8 else 'proj1',
                    'user': _idstr(b['user_id']) if v >= 8 else 'user1', 'env': dict(env)}
        e = _entry(c, b, v, False)
        e.update({'op': 'alloc_put', 'v': v, 'env': dict(env)})
        return e
    if seg[0] == 'reshaper':
        _need(method == 'POST' and len(seg) == 1 and not query and v >= 30)
        _need('service' in roles, 'reshaper is for the service role')
        b = J()
        _only(b, ['inventories', 'allocations'], ['inventories', 'allocations'])
        _need(isinstance(b['inventories'], dict) and isinstance(b['allocations'], dict))
        invs = []
        for u, d in b['inventories'].items():
            _only(d, ['resource_provider_generation', 'inventories'], ['resource_provider_generation', 'inventories'])
            _need(isinstance(d['inventories'], dict))
            invs.append({'u': _uuid(u), 'gen': _int(d['resource_provider_generation'], 0),
                         'invs': [{'rc': _class(k), 'inv': _inv(x)} for k, x in d['inventories'].items()]})
        ents = [_entry(_uuid(c), d, max(v, 28), True) for c, d in b['allocations'].items()]
        return {'op': 'reshape', 'v': v, 'invs': invs, 'entries': ents, 'env': dict(env)}
    if seg[0] == 'usages':
        _need(method == 'GET' and len(seg) == 1)
        q = parse_qsl(query, keep_blank_values=True)
        _need(len({k for k, _ in q}) == len(q) and all(k in ('project_id', 'user_id', 'consumer_type') for k, _ in q))
        q = dict(q)
        _need(all(x.isascii() and x.isprintable() and 1 <= len(x) <= 255 for x in q.values()))
        return {'op': 'usages', 'v': v, 'project': q.get('project_id', ''), 'user': q.get('user_id', ''),
                'ctype': q.get('consumer_type', '')}
    raise Outside('route')


# ---------------------------------------------------------------------------
# GET /allocation_candidates and GET /resource_providers -> the abstract
# queries of spec/Candidates.tla (inverse of cand.render_query / render_filter)

SUFFIX_OLD = re.compile(r'^[1-9][0-9]*\Z')
SUFFIX_NEW = re.compile(r'^[a-zA-Z0-9_-]{1,64}\Z')


def _setrec(xs):
    return {x: True for x in xs}


def _trait_name(t):
    _need(NAME_RE.match(t) and len(t) <= 255, 'trait name')
    return t


def _parse_required(vals, v, any_from, forbidden_from=22):
    """`required` values -> (list of any-of sets, forbidden set)."""
    req, forb = [], set()
    for val in vals:
        if val.startswith('in:'):
            _need(v >= any_from, 'required=in: not at this version')
            ts = val[3:].split(',')
            _need(len(ts) >= 1 and all(ts))
            req.append(_setrec(_trait_name(t) for t in ts))
            continue
        for t in val.split(','):
            _need(t != '', 'empty trait')
            if t.startswith('!'):
                _need(v >= forbidden_from, 'forbidden traits not at this version')
                forb.add(_trait_name(t[1:]))
            else:
                req.append(_setrec([_trait_name(t)]))
    _need(not any(t in r for r in req for t in forb), 'trait both required and forbidden')
    return req, forb


def _parse_member_of(vals, v, repeat_from, forbid_from):
    mem, forb = [], set()
    _need(len(vals) <= 1 or v >= repeat_from, 'repeated member_of')
    for val in vals:
        neg = val.startswith('!')
        if neg:
            _need(v >= forbid_from, 'forbidden aggregates not at this version')
            val = val[1:]
        if val.startswith('in:'):
            us = val[3:].split(',')
        else:
            us = [val]
        us = [_uuid(u) for u in us]
        if neg:
            forb.update(us)
        else:
            mem.append(_setrec(us))
    _need(not any(a in m for m in mem for a in forb), 'aggregate both wanted and forbidden')
    return mem, forb


def _resources_param(val):
    out = {}
    for item in val.split(','):
        _need(item.count(':') == 1, 'resources item')
        k, a = item.split(':')
        _need(NAME_RE.match(k) and a.isdigit() and a.isascii() and 1 <= int(a) <= MAXINT and k not in out, 'resources item')
        out[k] = int(a)
    _need(out)
    return out


def abstract_ac(path_qs, headers):
    try:
        return _abstract_ac(path_qs, headers)
    except Outside:
        return None


def _caller_ok(headers):
    h = {k.lower(): v for k, v in headers.items()}
    _need('admin' in caller_roles(headers), 'caller')
    _need('application/json' in h.get('accept', 'application/json'), 'accept')


def _abstract_ac(path_qs, headers):
    _caller_ok(headers)
    v = version(headers)
    _need(v >= 10, 'route')
    parts = urlsplit(path_qs)
    _need(parts.path == '/allocation_candidates')
    pairs = parse_qsl(parts.query, keep_blank_values=True, strict_parsing=False)
    _need(all(val != '' for _, val in pairs), 'empty value')
    by = {}
    for k, val in pairs:
        by.setdefault(k, []).append(val)
    suffix_re = SUFFIX_NEW if v >= 33 else SUFFIX_OLD
    groups = {}
    q = {'op': 'ac_list', 'v': v, 'groups': [], 'policy': '', 'root_required': {}, 'root_forbidden': {},
         'same_subtree': [], 'limit': -1}
    order = []
    for k, vals in by.items():
        base = None
        for b in ('resources', 'required', 'member_of', 'in_tree'):
            if k.startswith(b):
                base = b
                break
        if base is None:
            continue
        sfx = k[len(base):]
        if sfx:
            _need(v >= 25 and suffix_re.match(sfx), 'suffix')
        if sfx not in groups:
            groups[sfx] = {'suffix': sfx, 'res': {}, 'required': [], 'forbidden': {}, 'member_of': [],
                           'forbidden_aggs': {}, 'in_tree': ''}
            order.append(sfx)
        g = groups[sfx]
        if base == 'resources':
            _need(len(vals) == 1)
            g['res'] = _resources_param(vals[0])
        elif base == 'required':
            _need(v >= 17)
            _need(len(vals) == 1 or v >= 39, 'repeated required')
            req, forb = _parse_required(vals, v, any_from=39)
            g['required'], g['forbidden'] = req, _setrec(sorted(forb))
        elif base == 'member_of':
            _need(v >= 21)
            mem, forb = _parse_member_of(vals, v, repeat_from=24, forbid_from=32)
            g['member_of'], g['forbidden_aggs'] = mem, _setrec(sorted(forb))
        elif base == 'in_tree':
            _need(v >= 31 and len(vals) == 1)
            g['in_tree'] = _uuid(vals[0])
    known = set()
    for k in by:
        if any(k.startswith(b) for b in ('resources', 'required', 'member_of', 'in_tree')):
            known.add(k)
    rest = set(by) - known
    _need(rest <= {'group_policy', 'root_required', 'same_subtree', 'limit'}, 'unknown parameter')
    for sfx, g in groups.items():
        if not g['res']:
            # a resourceless group: 1.36, must carry a trait or aggregate filter and take part in same_subtree
            _need(v >= 36 and sfx != '' and (g['required'] or g['member_of'] or g['forbidden'] or g['forbidden_aggs']
                                             or g['in_tree']), 'group without resources')
    _need(groups, 'no groups')
    if 'group_policy' in by:
        _need(v >= 25 and len(by['group_policy']) == 1 and by['group_policy'][0] in ('none', 'isolate'))
        q['policy'] = by['group_policy'][0]
    nsuf = len([s for s in groups if s != '' and groups[s]['res']])
    _need(nsuf < 2 or q['policy'] != '', 'group_policy required')
    if 'root_required' in by:
        _need(v >= 35 and len(by['root_required']) == 1)
        req, forb = _parse_required(by['root_required'], v, any_from=99)
        q['root_required'] = _setrec(sorted(t for r in req for t in r))
        q['root_forbidden'] = _setrec(sorted(forb))
    if 'same_subtree' in by:
        _need(v >= 36)
        for val in by['same_subtree']:
            ss = val.split(',')
            _need(all(s in groups and s != '' for s in ss) and len(set(ss)) == len(ss))
            q['same_subtree'].append(_setrec(ss))
    for sfx, g in groups.items():
        if not g['res']:
            _need(any(sfx in ss for ss in q['same_subtree']), 'resourceless group outside same_subtree')
    if 'limit' in by:
        _need(v >= 16 and len(by['limit']) == 1 and by['limit'][0].isdigit() and by['limit'][0].isascii()
              and 1 <= int(by['limit'][0]) <= MAXINT)
        q['limit'] = int(by['limit'][0])
    q['groups'] = [groups[s] for s in order]
    return q


def abstract_list(path_qs, headers):
    try:
        return _abstract_list(path_qs, headers)
    except Outside:
        return None


def _abstract_list(path_qs, headers):
    _caller_ok(headers)
    v = version(headers)
    parts = urlsplit(path_qs)
    _need(parts.path == '/resource_providers')
    pairs = parse_qsl(parts.query, keep_blank_values=True)
    _need(all(val != '' for k, val in pairs if k != 'name'), 'empty value')
    by = {}
    for k, val in pairs:
        by.setdefault(k, []).append(val)
    _need(set(by) <= {'name', 'uuid', 'in_tree', 'member_of', 'required', 'resources'}, 'unknown parameter')
    f = {'op': 'rp_list', 'v': v, 'name': '', 'has_name': False, 'uuid': '', 'in_tree': '', 'member_of': [],
         'forbidden_aggs': {}, 'required': [], 'forbidden': {}, 'resources': {}}
    if 'name' in by:
        _need(len(by['name']) == 1 and by['name'][0].isascii())
        f['name'] = by['name'][0]
        f['has_name'] = True
    if 'uuid' in by:
        _need(len(by['uuid']) == 1)
        f['uuid'] = _uuid(by['uuid'][0])
    if 'in_tree' in by:
        _need(v >= 14 and len(by['in_tree']) == 1)
        f['in_tree'] = _uuid(by['in_tree'][0])
    if 'member_of' in by:
        _need(v >= 3)
        mem, forb = _parse_member_of(by['member_of'], v, repeat_from=24, forbid_from=32)
        f['member_of'], f['forbidden_aggs'] = mem, _setrec(sorted(forb))
    if 'required' in by:
        _need(v >= 18)
        _need(len(by['required']) == 1 or v >= 39)
        req, forb = _parse_required(by['required'], v, any_from=39)
        f['required'], f['forbidden'] = req, _setrec(sorted(forb))
    if 'resources' in by:
        _need(v >= 4 and len(by['resources']) == 1)
        f['resources'] = _resources_param(by['resources'][0])
    return f
