------------------------------- MODULE Serial -------------------------------
(***************************************************************************)
(* Serial executions of a set of requests under API!Apply: the yardstick   *)
(* of C07, shared by the model of the transaction structure (Tx.tla) and   *)
(* by the validation of recorded concurrent executions (TraceSerial.tla).  *)
(***************************************************************************)
EXTENDS Props

\* all orders of a set of indices
Orders(S) == {q \in [1..Cardinality(S) -> S] : \A a, b \in 1..Cardinality(S) : q[a] = q[b] => a = b}

RECURSIVE FoldApply(_, _, _, _)
\* apply reqs[ord[k]], ... from state st; result: [ok, s] where ok means each
\* request got the status it was observed with
FoldApply(st, reqs, resps, ord) ==
  IF ord = <<>> THEN [ok |-> TRUE, s |-> st]
  ELSE LET a == Apply(st, reqs[Head(ord)]) IN
       IF a.resp.status # resps[Head(ord)].status THEN [ok |-> FALSE, s |-> st]
       ELSE FoldApply(a.s, reqs, resps, Tail(ord))


=============================================================================
